(* Proofs of the C11 obligations (statements: Pos/PosSpec.v; model: Pos/PosModel.v).

   Structure
   1. facts about UTF-8 texts (from the C13 theorems): an encoded character decodes to itself and to
      its own length whatever follows, so scanning the bytes of a list of characters is scanning the
      characters;
   2. facts about the shipped tables (from the C14 theorems): every lookup succeeds and the
      Line_Ending property is exactly {LF, VT, FF, CR, NEL, LS, PS};
   3. the specification looks ahead (a CR followed by LF does not count), the code looks behind (an LF
      preceded by CR does not count): the two counts agree, the specified position composes over
      concatenation given the last character of the first part, and the two loops of position_at,
      started at any boundary, compute exactly that continuation;
   4. an invariant (every cache entry and the origin hold the specified position in all the text, the
      look-behind byte / origin_follows_cr tells whether the text before the starting point ends in CR)
      carried through arbitrary histories;
   5. the cache lemmas (sortedness, repeated query);
   6. special cases and a worked example, by evaluation on the shipped tables. *)
From Coq Require Import NArith ZArith List Bool Lia.
From Lug Require Import Gen.UcdTables Utf8.Utf8Model Utf8.Utf8Spec Utf8.Utf8Stmts Utf8.Utf8Proofs
  Ucd.Rle Ucd.Lookup Ucd.UcdSpec Ucd.UcdProofs Pos.PosModel Pos.PosSpec.
Import ListNotations.
Local Open Scope N_scope.

Strategy opaque [decompress_table].

(* ------------------------------------------------------------------------------------------------ *)
(* 1. UTF-8 texts                                                                                    *)
(* ------------------------------------------------------------------------------------------------ *)

Lemma enc_length r : is_scalar r = true -> length (enc r) = utf8_len r.
Proof. intros H. destruct (C13_encode_scalar_proof r [] H) as (_ & L & _ & _). exact L. Qed.

Lemma utf8_len_pos r : (1 <= utf8_len r)%nat.
Proof. destruct (utf8_len_cases r) as [[_ L]|[[_ L]|[[_ L]|[_ L]]]]; rewrite L; lia. Qed.

Lemma enc_length_pos r : is_scalar r = true -> (1 <= length (enc r))%nat.
Proof. intros H. rewrite (enc_length r H). apply utf8_len_pos. Qed.

Lemma enc_bytes_ok r : is_scalar r = true -> bytes_ok (enc r).
Proof. intros H. destruct (C13_encode_scalar_proof r [] H) as (_ & _ & B & _). exact B. Qed.

Lemma encs_bytes_ok rs : scalars rs -> bytes_ok (encs rs).
Proof.
  induction 1 as [|r rs Hr _ IH]; [constructor|].
  unfold bytes_ok in *. cbn [encs flat_map]. apply Forall_app. split; [apply enc_bytes_ok; exact Hr|exact IH].
Qed.

Lemma dec_enc r rest : is_scalar r = true -> bytes_ok rest ->
  decode_rune (enc r ++ rest) = (length (enc r), r).
Proof. intros H B. rewrite (enc_length r H). exact (C13_roundtrip_proof r rest H B). Qed.

Lemma encs_cons r rs : encs (r :: rs) = enc r ++ encs rs.
Proof. reflexivity. Qed.

Lemma encs_app a b : encs (a ++ b) = encs a ++ encs b.
Proof. unfold encs. apply flat_map_app. Qed.

Lemma skipn_app_exact {A} (a b : list A) : skipn (length a) (a ++ b) = b.
Proof. induction a as [|x a IH]; [reflexivity|exact IH]. Qed.

Lemma firstn_app_exact {A} (a b : list A) : firstn (length a) (a ++ b) = a.
Proof. induction a as [|x a IH]; [destruct b; reflexivity|cbn; f_equal; exact IH]. Qed.

Lemma enc_app_nonnil r rest : is_scalar r = true -> enc r ++ rest <> [].
Proof.
  intros H E. pose proof (enc_length_pos r H) as L. destruct (enc r); [cbn in L; lia|discriminate E].
Qed.

Lemma scalars_app a b : scalars (a ++ b) <-> scalars a /\ scalars b.
Proof. unfold scalars. apply Forall_app. Qed.

Lemma scalars_firstn j rs : scalars rs -> scalars (firstn j rs).
Proof. intros H. rewrite <- (firstn_skipn j rs) in H. apply scalars_app in H. apply H. Qed.

Lemma scalars_skipn j rs : scalars rs -> scalars (skipn j rs).
Proof. intros H. rewrite <- (firstn_skipn j rs) in H. apply scalars_app in H. apply H. Qed.

Lemma decode_all_fuel_encs : forall rs fuel, scalars rs -> (length (encs rs) <= fuel)%nat ->
  decode_all_fuel fuel (encs rs) = rs.
Proof.
  induction rs as [|r rs IH]; intros fuel Hs Hf.
  - destruct fuel; reflexivity.
  - inversion Hs as [|? ? Hr Hrs]; subst. rewrite encs_cons in *.
    pose proof (enc_length_pos r Hr) as L. rewrite app_length in Hf.
    destruct fuel as [|f]; [lia|].
    destruct (enc r ++ encs rs) as [|x l] eqn:E; [exfalso; exact (enc_app_nonnil r _ Hr E)|].
    cbn [decode_all_fuel]. rewrite <- E. rewrite (dec_enc r _ Hr (encs_bytes_ok rs Hrs)).
    replace (Nat.max (length (enc r)) 1) with (length (enc r)) by lia.
    rewrite skipn_app_exact. f_equal. apply IH; [exact Hrs|lia].
Qed.

Lemma decode_all_encs rs : scalars rs -> decode_all (encs rs) = rs.
Proof. intros H. unfold decode_all. apply decode_all_fuel_encs; [exact H|lia]. Qed.

(* ------------------------------------------------------------------------------------------------ *)
(* 2. The shipped tables                                                                             *)
(* ------------------------------------------------------------------------------------------------ *)

Lemma with_table_elim (f : ucd_table -> bool) t : decompress_table = Some t -> with_table f = true -> f t = true.
Proof. intros Ht H. rewrite <- (with_table_spec f t Ht). exact H. Qed.

Definition table_ok (t : ucd_table) : Prop :=
  forall cp, exists r, query t cp = Some r /\ has (rec_props r) ptype_Line_Ending = is_line_ending cp.

Definition chk_invalid_le (t : ucd_table) : bool :=
  match record_at t invalid_record_index with
  | Some x => negb (has (rec_props x) ptype_Line_Ending)
  | None => false
  end.
Lemma invalid_le_ok : with_table chk_invalid_le = true.
Proof. vm_compute. reflexivity. Qed.

Lemma is_line_ending_small cp : is_line_ending cp = true -> cp < rune_limit.
Proof.
  unfold is_line_ending, rune_limit. intros H.
  repeat (apply orb_true_iff in H; destruct H as [H|H]); apply N.eqb_eq in H; subst; reflexivity.
Qed.

Lemma table_ok_shipped t : decompress_table = Some t -> table_ok t.
Proof.
  intros Ht cp. destruct (N.lt_ge_cases cp rune_limit) as [Hlt|Hge].
  - destruct (C14_standard_constants_proof t Ht cp Hlt) as [r [Hq Hc]]. clear Ht.
    exists r. split; [exact Hq|]. unfold chk_constants in Hc.
    repeat (apply andb_true_iff in Hc; destruct Hc as [Hc ?]).
    match goal with H : Bool.eqb (p r ptype_Line_Ending) _ = true |- _ => apply Bool.eqb_prop in H; exact H end.
  - pose proof (with_table_elim _ t Ht invalid_le_ok) as Hi. clear Ht. unfold chk_invalid_le in Hi.
    pose proof (query_out_of_range t cp Hge) as Hq.
    destruct (record_at t invalid_record_index) as [x|] eqn:Ex; [|discriminate Hi].
    exists x. split; [exact Hq|].
    apply negb_true_iff in Hi. rewrite Hi. symmetry.
    destruct (is_line_ending cp) eqn:E; [|reflexivity].
    apply is_line_ending_small in E. lia.
Qed.

Lemma ucwidth_total t : table_ok t -> forall r, exists w, ucwidth t r = Some w.
Proof.
  intros Hok r. destruct (Hok r) as [x [Hq _]]. unfold ucwidth, cwidth. rewrite Hq. eexists. reflexivity.
Qed.

(* ------------------------------------------------------------------------------------------------ *)
(* 3a. The specification over concatenations                                                         *)
(* ------------------------------------------------------------------------------------------------ *)

(* The specification looks ahead (a CR does not count when an LF follows); a scan looks behind (an LF
   does not count when a CR precedes).  [count_from cr rs] is the look-behind count of the line
   endings of [rs] when [cr] tells whether the character before [rs] is a CR. *)
Fixpoint count_from (cr : bool) (rs : list N) : N :=
  match rs with
  | [] => 0
  | r :: rest => (if is_line_ending r && negb (cr && (r =? 10)) then 1 else 0) + count_from (r =? 13) rest
  end.

Definition last_is_cr (rs : list N) : bool := last rs 0 =? 13.

(* the position after the characters [rs] in a text that continues from position [o], where [cr] tells
   whether the character before [rs] is a CR *)
Definition spec_from (t : ucd_table) (tw ta : N) (cr : bool) (o : pos) (rs : list N) : option pos :=
  match columns t tw ta (current_line rs) (if has_line_ending rs then 1 else p_col o) with
  | Some c => Some (mkpos (p_line o + count_from cr rs) c)
  | None => None
  end.

Lemma count_unfold r rest : count_line_endings (r :: rest) =
  (if is_line_ending r && negb ((r =? 13) && head_is_lf rest) then 1 else 0) + count_line_endings rest.
Proof. reflexivity. Qed.

Lemma count_from_unfold cr r rest : count_from cr (r :: rest) =
  (if is_line_ending r && negb (cr && (r =? 10)) then 1 else 0) + count_from (r =? 13) rest.
Proof. reflexivity. Qed.

(* looking behind and looking ahead count the same *)
Lemma count_from_spec : forall rs cr,
  count_from cr rs + (if cr && head_is_lf rs then 1 else 0) = count_line_endings rs.
Proof.
  induction rs as [|r rest IH]; intros cr.
  - cbn [count_from head_is_lf count_line_endings]. rewrite andb_false_r. reflexivity.
  - rewrite count_unfold, count_from_unfold, <- (IH (r =? 13)). cbn [head_is_lf].
    destruct (N.eqb_spec r 10) as [E10|E10]; [subst r; destruct cr, (head_is_lf rest); cbv [is_line_ending]; cbn [N.eqb Pos.eqb orb andb negb]; lia|].
    destruct (N.eqb_spec r 13) as [E13|E13]; [subst r; destruct cr, (head_is_lf rest); cbv [is_line_ending]; cbn [N.eqb Pos.eqb orb andb negb]; lia|].
    rewrite andb_false_r. cbn [andb negb]. rewrite andb_true_r. lia.
Qed.

Lemma count_from_false rs : count_from false rs = count_line_endings rs.
Proof. rewrite <- (count_from_spec rs false). cbn [andb]. lia. Qed.

Lemma count_cons r rest :
  count_line_endings (r :: rest) = (if is_line_ending r then 1 else 0) + count_from (r =? 13) rest.
Proof.
  rewrite count_unfold, <- (count_from_spec rest (r =? 13)).
  destruct (N.eqb_spec r 13) as [E|E]; [subst r; destruct (head_is_lf rest); cbv [is_line_ending]; cbn [N.eqb Pos.eqb orb andb negb]; lia|].
  cbn [andb negb]. rewrite andb_true_r. lia.
Qed.

Lemma last_is_cr_cons r x l : last_is_cr (r :: x :: l) = last_is_cr (x :: l).
Proof. reflexivity. Qed.

(* the line endings of a ++ b: those of a, then those of b counted looking behind *)
Lemma count_app : forall a b,
  count_line_endings (a ++ b) = count_line_endings a + count_from (last_is_cr a) b.
Proof.
  induction a as [|r a IH]; intros b.
  - cbn [app count_line_endings]. unfold last_is_cr. cbn [last]. change (0 =? 13) with false.
    rewrite count_from_false. lia.
  - destruct a as [|x a].
    + cbn [app]. rewrite count_cons. unfold last_is_cr. cbn [last count_line_endings head_is_lf].
      rewrite andb_false_r. cbn [negb]. rewrite andb_true_r. lia.
    + rewrite last_is_cr_cons. change ((r :: x :: a) ++ b) with (r :: (x :: a) ++ b).
      rewrite (count_unfold r ((x :: a) ++ b)), (count_unfold r (x :: a)), (IH b). cbn [app head_is_lf]. lia.
Qed.

Lemma spec_from_false t tw ta o rs : spec_from t tw ta false o rs = spec_runes t tw ta o rs.
Proof. unfold spec_from, spec_runes. rewrite count_from_false. reflexivity. Qed.

Lemma has_le_app a b : has_line_ending (a ++ b) = has_line_ending a || has_line_ending b.
Proof. unfold has_line_ending. apply existsb_app. Qed.

Lemma current_line_none rs : has_line_ending rs = false -> current_line rs = rs.
Proof.
  destruct rs as [|r rest]; [reflexivity|]. unfold has_line_ending. cbn [existsb current_line].
  intros H. apply orb_false_iff in H. destruct H as [H1 H2]. unfold has_line_ending. rewrite H2, H1. reflexivity.
Qed.

Lemma current_line_app a b :
  current_line (a ++ b) = if has_line_ending b then current_line b else current_line a ++ b.
Proof.
  induction a as [|r a IH].
  - cbn [app current_line]. destruct (has_line_ending b) eqn:E; [reflexivity|]. apply current_line_none. exact E.
  - cbn [app current_line]. rewrite has_le_app, IH.
    destruct (has_line_ending b) eqn:Eb.
    + rewrite orb_true_r. reflexivity.
    + rewrite orb_false_r. destruct (has_line_ending a); [reflexivity|].
      destruct (is_line_ending r); reflexivity.
Qed.

Lemma current_line_suffix rs : exists pre, rs = pre ++ current_line rs.
Proof.
  induction rs as [|r rest [pre IH]]; [exists []; reflexivity|]. cbn [current_line].
  destruct (has_line_ending rest).
  - exists (r :: pre). cbn [app]. f_equal. exact IH.
  - destruct (is_line_ending r); [exists [r]; reflexivity|exists []; reflexivity].
Qed.

Lemma columns_app t tw ta x y c :
  columns t tw ta (x ++ y) c = match columns t tw ta x c with Some c' => columns t tw ta y c' | None => None end.
Proof.
  revert c. induction x as [|r x IH]; intros c; [reflexivity|]. cbn [app columns].
  destruct (advance t tw ta c r); [apply IH|reflexivity].
Qed.

Lemma columns_total t tw ta : table_ok t -> forall rs c, exists c', columns t tw ta rs c = Some c'.
Proof.
  intros Hok. induction rs as [|r rs IH]; intros c; [exists c; reflexivity|]. cbn [columns]. unfold advance.
  destruct (r =? 9); [apply IH|]. destruct (ucwidth_total t Hok r) as [w Hw]. rewrite Hw. apply IH.
Qed.

Lemma spec_runes_total t tw ta : table_ok t -> forall o rs, exists p, spec_runes t tw ta o rs = Some p.
Proof.
  intros Hok o rs. unfold spec_runes.
  destruct (columns_total t tw ta Hok (current_line rs) (if has_line_ending rs then 1 else p_col o)) as [c Hc].
  rewrite Hc. eexists. reflexivity.
Qed.

Lemma spec_runes_nil t tw ta o : spec_runes t tw ta o [] = Some o.
Proof. unfold spec_runes. cbn. destruct o as [l c]. cbn. rewrite N.add_0_r. reflexivity. Qed.

(* positions compose: the position after a ++ b is the position after b in a text that continues
   where a ends, b's line endings being counted with a look at the last character of a *)
Lemma spec_runes_app t tw ta o a b p :
  spec_runes t tw ta o a = Some p -> spec_runes t tw ta o (a ++ b) = spec_from t tw ta (last_is_cr a) p b.
Proof.
  intros Ha. unfold spec_runes, spec_from in *. rewrite count_app, has_le_app, current_line_app.
  destruct (columns t tw ta (current_line a) (if has_line_ending a then 1 else p_col o)) as [ca|] eqn:Ea; [|discriminate Ha].
  inversion Ha; subst p; clear Ha. cbn [p_line p_col].
  destruct (has_line_ending b) eqn:Eb.
  - rewrite orb_true_r. destruct (columns t tw ta (current_line b) 1); [|reflexivity]. f_equal. f_equal. lia.
  - rewrite orb_false_r, columns_app, Ea, (current_line_none b Eb).
    destruct (columns t tw ta b ca); [|reflexivity]. f_equal. f_equal. lia.
Qed.

(* ------------------------------------------------------------------------------------------------ *)
(* 3b. The two loops of position_at over the bytes of a list of characters                           *)
(* ------------------------------------------------------------------------------------------------ *)

Lemma scan_lines_step t f cur prev p first : cur <> [] ->
  scan_lines t (S f) cur prev p first =
  (let '(n, rune) := decode_rune cur in
   let next := skipn n cur in
   match query t rune with
   | None => None
   | Some r => if has (rec_props r) ptype_Line_Ending
               then scan_lines t f next rune
                      (mkpos (if negb ((prev =? 13) && (rune =? 10)) then p_line p + 1 else p_line p) 1) next
               else scan_lines t f next rune p first
   end).
Proof. destruct cur; [congruence|reflexivity]. Qed.

Lemma scan_cols_step t tw ta f cur col : cur <> [] ->
  scan_cols t tw ta (S f) cur col =
  (let '(n, rune) := decode_rune cur in
   let next := skipn n cur in
   if rune =? 9 then scan_cols t tw ta f next (tab_column tw ta col)
   else match ucwidth t rune with
        | Some w => scan_cols t tw ta f next (col + w)
        | None => None
        end).
Proof. destruct cur; [congruence|reflexivity]. Qed.

Lemma has_le_cons r rest : has_line_ending (r :: rest) = is_line_ending r || has_line_ending rest.
Proof. reflexivity. Qed.

(* first loop: counts the line endings looking behind ([prev] = the character before the scan) and
   leaves `first` at the start of the last line *)
Lemma scan_lines_runes t : table_ok t ->
  forall rs fuel prev p first, scalars rs -> (length (encs rs) <= fuel)%nat ->
    scan_lines t fuel (encs rs) prev p first =
    Some (mkpos (p_line p + count_from (prev =? 13) rs) (if has_line_ending rs then 1 else p_col p),
          if has_line_ending rs then encs (current_line rs) else first).
Proof.
  intros Hok. induction rs as [|r rest IH]; intros fuel prev p first Hs Hf.
  - cbn [encs flat_map]. destruct fuel; cbn [scan_lines has_line_ending existsb count_from];
      destruct p as [l c]; cbn [p_line p_col]; rewrite N.add_0_r; reflexivity.
  - inversion Hs as [|? ? Hr Hrest]; subst. rewrite encs_cons in *.
    pose proof (enc_length_pos r Hr) as L. rewrite app_length in Hf.
    destruct fuel as [|f]; [lia|].
    rewrite (scan_lines_step t f _ prev p first (enc_app_nonnil r _ Hr)).
    rewrite (dec_enc r _ Hr (encs_bytes_ok rest Hrest)). cbv beta iota zeta.
    rewrite skipn_app_exact.
    destruct (Hok r) as [x [Hq Hle]]. rewrite Hq, Hle.
    rewrite has_le_cons, count_from_unfold. cbn [current_line].
    assert (Hf' : (length (encs rest) <= f)%nat) by lia.
    destruct (is_line_ending r) eqn:Er.
    + rewrite (IH f r _ (encs rest) Hrest Hf'). cbn [p_line p_col orb andb].
      destruct ((prev =? 13) && (r =? 10)); cbn [negb]; rewrite ?N.add_assoc, ?N.add_0_r;
        destruct (has_line_ending rest); reflexivity.
    + rewrite (IH f r p first Hrest Hf'). cbn [orb andb]. rewrite N.add_0_l.
      destruct (has_line_ending rest); reflexivity.
Qed.

Lemma tab_column_stop tw ta c : tab_column tw ta c = tab_stop tw ta c.
Proof.
  unfold tab_column, tab_stop. cbv zeta. generalize ((c + tw - 1) mod ta). intros m. lia.
Qed.

(* second loop: adds up the columns of the characters it is given *)
Lemma scan_cols_runes t tw ta : forall rs fuel c, scalars rs -> (length (encs rs) <= fuel)%nat ->
  scan_cols t tw ta fuel (encs rs) c = columns t tw ta rs c.
Proof.
  induction rs as [|r rest IH]; intros fuel c Hs Hf.
  - cbn [encs flat_map]. destruct fuel; reflexivity.
  - inversion Hs as [|? ? Hr Hrest]; subst. rewrite encs_cons in *.
    pose proof (enc_length_pos r Hr) as L. rewrite app_length in Hf.
    destruct fuel as [|f]; [lia|].
    rewrite (scan_cols_step t tw ta f _ c (enc_app_nonnil r _ Hr)).
    rewrite (dec_enc r _ Hr (encs_bytes_ok rest Hrest)). cbv beta iota zeta.
    rewrite skipn_app_exact. cbn [columns]. unfold advance.
    assert (Hf' : (length (encs rest) <= f)%nat) by lia.
    destruct (r =? 9).
    + rewrite tab_column_stop. apply IH; assumption.
    + destruct (ucwidth t r); [apply IH; assumption|reflexivity].
Qed.

(* the two loops together, started at any boundary with any position p: the specified position of the
   characters scanned, in a text that continues from p; [cr] = what the look-behind byte says *)
Lemma compute_runes t s tw ta : table_ok t -> ps_tabw s = tw -> ps_taba s = ta ->
  forall pre mid post p (cr : bool), ps_match s = encs pre ++ encs mid ++ post -> scalars mid ->
    initial_prevrune s (N.of_nat (length (encs pre))) = (if cr then 13 else 0) ->
    compute_position t s (N.of_nat (length (encs pre)), p) (N.of_nat (length (encs pre) + length (encs mid)))
    = spec_from t tw ta cr p mid.
Proof.
  intros Hok Htw Hta pre mid post p cr Hm Hs Hprev. unfold compute_position. rewrite Hprev, Hm, Htw, Hta.
  rewrite Nat2N.id, skipn_app_exact.
  replace (N.to_nat (N.of_nat (length (encs pre) + length (encs mid)) - N.of_nat (length (encs pre)))) with (length (encs mid)) by lia.
  rewrite firstn_app_exact.
  rewrite (scan_lines_runes t Hok mid (length (encs mid)) _ p (encs mid) Hs (le_n _)).
  assert (Ecr : ((if cr then 13 else 0) =? 13) = cr) by (destruct cr; reflexivity). rewrite Ecr.
  assert (E : (if has_line_ending mid then encs (current_line mid) else encs mid) = encs (current_line mid)).
  { destruct (has_line_ending mid) eqn:Eh; [reflexivity|]. rewrite (current_line_none mid Eh). reflexivity. }
  rewrite E. cbn [p_line p_col].
  assert (Hsc : scalars (current_line mid)).
  { destruct (current_line_suffix mid) as [pre' Hp]. rewrite Hp in Hs. apply scalars_app in Hs. apply Hs. }
  rewrite (scan_cols_runes t tw ta (current_line mid) _ _ Hsc (le_n _)).
  unfold spec_from. reflexivity.
Qed.

(* the look-behind byte: the last byte of a non-empty UTF-8 text is CR exactly when its last character is *)
Lemma enc_last_cr r : is_scalar r = true -> (last (enc r) 0 =? 13) = (r =? 13).
Proof.
  intros Hs. unfold enc. pose proof Hs as Hs'. unfold is_scalar in Hs'.
  destruct (N.lt_ge_cases r 128) as [H1|H1]; [rewrite (enc1 r H1); reflexivity|].
  assert (Hne : (r =? 13) = false) by (apply N.eqb_neq; lia). rewrite Hne.
  destruct (N.lt_ge_cases r 2048) as [H2|H2]; [rewrite (enc2 r (conj H1 H2)); cbn [fst last]; apply N.eqb_neq; lia|].
  destruct (N.lt_ge_cases r 65536) as [H3|H3]; [rewrite (enc3 r (conj H2 H3) Hs); cbn [fst last]; apply N.eqb_neq; lia|].
  assert (H4 : r < 1114112) by lia.
  rewrite (enc4 r (conj H3 H4)). cbn [fst last]. apply N.eqb_neq. lia.
Qed.

Lemma last_app_nonnil {A} (a b : list A) d : b <> [] -> last (a ++ b) d = last b d.
Proof.
  intros Hb. induction a as [|x a IH]; [reflexivity|]. cbn [app]. rewrite <- IH.
  destruct (a ++ b) eqn:E; [|reflexivity]. apply app_eq_nil in E. destruct E as [_ E]. congruence.
Qed.

Lemma last_nth {A} (l : list A) d : last l d = nth (length l - 1) l d.
Proof.
  destruct l as [|x l]; [reflexivity|]. assert (Hne : x :: l <> []) by discriminate.
  destruct (exists_last Hne) as [l' [y E]]. rewrite E, last_last, app_length. cbn [length].
  rewrite app_nth2 by lia. replace (length l' + 1 - 1 - length l')%nat with O by lia. reflexivity.
Qed.

Lemma enc_nonnil r : is_scalar r = true -> enc r <> [].
Proof. intros H E. pose proof (enc_length_pos r H) as L. rewrite E in L. cbn in L. lia. Qed.

Lemma encs_last_cr pre l : scalars l -> l <> [] -> (last (encs l) 0 =? 13) = last_is_cr (pre ++ l).
Proof.
  intros Hs Hne. destruct (exists_last Hne) as [l' [x E]]. subst l.
  apply scalars_app in Hs. destruct Hs as [_ Hx]. inversion Hx as [|? ? Hx' _]; subst.
  rewrite encs_app. cbn [encs flat_map]. rewrite app_nil_r.
  rewrite (last_app_nonnil _ _ 0 (enc_nonnil x Hx')), (enc_last_cr x Hx').
  unfold last_is_cr. rewrite app_assoc, last_last. reflexivity.
Qed.

(* ------------------------------------------------------------------------------------------------ *)
(* 4. Boundaries, the cache, the invariant                                                           *)
(* ------------------------------------------------------------------------------------------------ *)

Lemma firstn_split {A} : forall j1 j2 (l : list A), (j1 <= j2)%nat ->
  firstn j2 l = firstn j1 l ++ firstn (j2 - j1) (skipn j1 l).
Proof.
  induction j1 as [|j1 IH]; intros j2 l H.
  - cbn [firstn skipn app]. rewrite Nat.sub_0_r. reflexivity.
  - destruct j2 as [|j2]; [lia|]. destruct l as [|x l]; [cbn; rewrite firstn_nil; reflexivity|].
    cbn [firstn skipn app Nat.sub]. f_equal. apply IH. lia.
Qed.

Lemma encs_length_ge rs : scalars rs -> (length rs <= length (encs rs))%nat.
Proof.
  induction 1 as [|r rs Hr _ IH]; [cbn; lia|]. rewrite encs_cons, app_length. cbn [length].
  pose proof (enc_length_pos r Hr). lia.
Qed.

Lemma boff_le seg j1 j2 : (j1 <= j2)%nat -> boff seg j1 <= boff seg j2.
Proof.
  intros H. unfold boff. rewrite (firstn_split j1 j2 seg H), encs_app, app_length. lia.
Qed.

Lemma boff_lt seg j1 j2 : scalars seg -> (j1 < j2 <= length seg)%nat -> boff seg j1 < boff seg j2.
Proof.
  intros Hs H. unfold boff. rewrite (firstn_split j1 j2 seg) by lia. rewrite encs_app, app_length.
  assert (Hs' : scalars (firstn (j2 - j1) (skipn j1 seg))) by (apply scalars_firstn, scalars_skipn; exact Hs).
  pose proof (encs_length_ge _ Hs') as L. rewrite firstn_length, skipn_length in L. lia.
Qed.

Lemma boff_inj seg j1 j2 : scalars seg -> (j1 <= length seg)%nat -> (j2 <= length seg)%nat ->
  boff seg j1 = boff seg j2 -> j1 = j2.
Proof.
  intros Hs H1 H2 E. destruct (Nat.lt_trichotomy j1 j2) as [H|[H|H]]; [|exact H|].
  - pose proof (boff_lt seg j1 j2 Hs (conj H H2)). lia.
  - pose proof (boff_lt seg j2 j1 Hs (conj H H1)). lia.
Qed.

Lemma boff_all seg : boff seg (length seg) = N.of_nat (length (encs seg)).
Proof. unfold boff. rewrite firstn_all. reflexivity. Qed.

Lemma lb_spec : forall c i b a, lower_bound c i = (b, a) ->
  c = b ++ a /\ Forall (fun e => fst e < i) b /\ match a with [] => True | e :: _ => i <= fst e end.
Proof.
  induction c as [|e c IH]; intros i b a H.
  - inversion H; subst. repeat split. constructor.
  - cbn [lower_bound] in H. destruct (fst e <? i) eqn:E.
    + destruct (lower_bound c i) as [b' a'] eqn:El. inversion H; subst.
      destruct (IH i b' a El) as (H1 & H2 & H3). repeat split.
      * cbn [app]. f_equal. exact H1.
      * constructor; [apply N.ltb_lt; exact E|exact H2].
      * exact H3.
    + inversion H; subst. repeat split; [constructor|]. apply N.ltb_ge in E. exact E.
Qed.

Lemma lb_insert : forall b i p a, Forall (fun e => fst e < i) b ->
  lower_bound (b ++ (i, p) :: a) i = (b, (i, p) :: a).
Proof.
  induction b as [|e b IH]; intros i p a H.
  - cbn [app lower_bound fst]. rewrite N.ltb_irrefl. reflexivity.
  - inversion H as [|? ? He Hb]; subst. cbn [app lower_bound]. apply N.ltb_lt in He. rewrite He.
    rewrite (IH i p a Hb). reflexivity.
Qed.

(* what position_at does, in two cases *)
Lemma position_at_cases t s i p s' : position_at t s i = Some (p, s') ->
  exists b a, lower_bound (ps_cache s) i = (b, a) /\
    ((cache_lookup a i = Some p /\ s' = s) \/
     (cache_lookup a i = None /\ compute_position t s (last b (0, ps_origin s)) i = Some p /\
      s' = with_cache s (b ++ (i, p) :: a))).
Proof.
  unfold position_at. destruct (lower_bound (ps_cache s) i) as [b a]. intros H. exists b, a. split; [reflexivity|].
  destruct (cache_lookup a i) as [q|].
  - left. inversion H; subst. split; reflexivity.
  - right. destruct (N.of_nat (length (ps_match s)) <? i); [discriminate H|].
    destruct (compute_position t s (last b (0, ps_origin s)) i) as [q|]; [|discriminate H].
    inversion H; subst. repeat split.
Qed.

Definition entry_ok (t : ucd_table) (tw ta : N) (done seg : list N) (e : N * pos) : Prop :=
  exists j, (j <= length seg)%nat /\ fst e = boff seg j /\
            spec_runes t tw ta (mkpos 1 1) (done ++ firstn j seg) = Some (snd e).

(* the state of an environment that has released the characters [done] and holds the segment [seg]:
   the origin and every cache entry hold the specified position of their offset in ALL the text (so a
   position just after a CR already carries the line of that CR), and origin_follows_cr tells whether
   the released text ends in CR *)
Definition Inv (t : ucd_table) (tw ta : N) (done seg : list N) (flag : bool) (s : pstate) : Prop :=
  ps_match s = encs seg /\ ps_tabw s = tw /\ ps_taba s = ta /\ ps_reset s = flag /\
  spec_runes t tw ta (mkpos 1 1) done = Some (ps_origin s) /\
  ps_ofcr s = last_is_cr done /\
  Forall (entry_ok t tw ta done seg) (ps_cache s).

Lemma boff_0 seg : boff seg 0 = 0.
Proof. reflexivity. Qed.

(* the look-behind of a scan that starts at the boundary after j0 characters of the segment *)
Lemma initial_prevrune_ok done seg s j0 : ps_match s = encs seg -> ps_ofcr s = last_is_cr done ->
  scalars seg -> (j0 <= length seg)%nat ->
  initial_prevrune s (boff seg j0) = if last_is_cr (done ++ firstn j0 seg) then 13 else 0.
Proof.
  intros Hm Hcr Hs Hj. unfold initial_prevrune. destruct j0 as [|k].
  - rewrite boff_0. cbn [firstn]. rewrite app_nil_r, Hcr. reflexivity.
  - assert (Hpos : boff seg 0 < boff seg (S k)) by (apply boff_lt; [exact Hs|lia]). rewrite boff_0 in Hpos.
    assert (E0 : (0 <? boff seg (S k)) = true) by (apply N.ltb_lt; exact Hpos). rewrite E0.
    assert (Hne : firstn (S k) seg <> []).
    { destruct seg; [cbn in Hj; lia|discriminate]. }
    rewrite <- (encs_last_cr done (firstn (S k) seg) (scalars_firstn _ _ Hs) Hne).
    assert (Eenc : encs seg = encs (firstn (S k) seg) ++ encs (skipn (S k) seg))
      by (rewrite <- encs_app, firstn_skipn; reflexivity).
    rewrite Hm, Eenc. unfold boff in *. rewrite Nat2N.id. rewrite app_nth1 by lia. rewrite <- last_nth. reflexivity.
Qed.

Lemma query_ok t tw ta done seg flag s j : table_ok t -> Inv t tw ta done seg flag s ->
  scalars seg -> (j <= length seg)%nat ->
  exists p s', position_at t s (boff seg j) = Some (p, s') /\
               spec_runes t tw ta (mkpos 1 1) (done ++ firstn j seg) = Some p /\
               Inv t tw ta done seg flag s'.
Proof.
  intros Hok (Hm & Htw & Hta & Hfl & Ho & Hcr & Hc) Hs Hj.
  unfold position_at. destruct (lower_bound (ps_cache s) (boff seg j)) as [b a] eqn:El.
  destruct (lb_spec _ _ _ _ El) as (Hcat & Hb & _).
  pose proof Hc as Hc'. rewrite Hcat in Hc'. apply Forall_app in Hc'. destruct Hc' as [Hcb Hca].
  destruct (cache_lookup a (boff seg j)) as [p|] eqn:Ecl.
  - unfold cache_lookup in Ecl. destruct a as [|[i q] a']; [discriminate Ecl|].
    destruct (i =? boff seg j) eqn:Ei; [|discriminate Ecl]. inversion Ecl; subst q. apply N.eqb_eq in Ei.
    inversion Hca as [|? ? [j0 (Hj0 & Hf & Hsp)] _]; subst. cbn [fst snd] in Hf, Hsp.
    assert (j0 = j) by (apply (boff_inj seg); [exact Hs|exact Hj0|exact Hj|congruence]). subst j0.
    exists p, s. split; [reflexivity|]. split; [exact Hsp|]. repeat split; assumption.
  - assert (Hlen : (N.of_nat (length (ps_match s)) <? boff seg j) = false).
    { apply N.ltb_ge. rewrite Hm, <- boff_all. apply boff_le. exact Hj. }
    rewrite Hlen.
    assert (Hstart : exists j0 p0, last b (0, ps_origin s) = (boff seg j0, p0) /\ (j0 <= j)%nat /\
                                   spec_runes t tw ta (mkpos 1 1) (done ++ firstn j0 seg) = Some p0).
    { destruct b as [|e0 b0].
      - exists O, (ps_origin s). cbn [last firstn]. rewrite app_nil_r. repeat split; [lia|exact Ho].
      - assert (Hne : e0 :: b0 <> []) by discriminate. destruct (exists_last Hne) as [b1 [e1 E1]].
        rewrite E1, last_last. rewrite E1 in Hb, Hcb. apply Forall_app in Hb, Hcb.
        destruct Hb as [_ Hb]. destruct Hcb as [_ Hcb].
        inversion Hb as [|? ? Hlt _]; subst. inversion Hcb as [|? ? [j0 (Hj0 & Hf & Hsp)] _]; subst.
        destruct e1 as [i1 p1]. cbn [fst snd] in *. subst i1. exists j0, p1. repeat split; [|exact Hsp].
        destruct (Nat.le_gt_cases j0 j) as [H|H]; [exact H|].
        assert (boff seg j <= boff seg j0) by (apply boff_le; lia). lia. }
    destruct Hstart as (j0 & p0 & Est & Hj0 & Hsp0). rewrite Est.
    set (mid := firstn (j - j0) (skipn j0 seg)).
    assert (Efj : firstn j seg = firstn j0 seg ++ mid) by (apply firstn_split; exact Hj0).
    assert (Eseg : seg = firstn j0 seg ++ mid ++ skipn j seg).
    { rewrite app_assoc, <- Efj, firstn_skipn. reflexivity. }
    assert (Ematch : ps_match s = encs (firstn j0 seg) ++ encs mid ++ encs (skipn j seg)).
    { rewrite Hm. rewrite Eseg at 1. rewrite !encs_app. reflexivity. }
    assert (Eidx : boff seg j = N.of_nat (length (encs (firstn j0 seg)) + length (encs mid))).
    { unfold boff. rewrite Efj, encs_app, app_length. reflexivity. }
    assert (Hsm : scalars mid) by (apply scalars_firstn, scalars_skipn; exact Hs).
    assert (Hprev : initial_prevrune s (N.of_nat (length (encs (firstn j0 seg)))) =
                    if last_is_cr (done ++ firstn j0 seg) then 13 else 0).
    { apply (initial_prevrune_ok done seg s j0 Hm Hcr Hs). lia. }
    unfold boff at 1. rewrite Eidx.
    rewrite (compute_runes t s tw ta Hok Htw Hta (firstn j0 seg) mid (encs (skipn j seg)) p0 _ Ematch Hsm Hprev).
    rewrite <- (spec_runes_app t tw ta (mkpos 1 1) (done ++ firstn j0 seg) mid p0 Hsp0).
    rewrite <- app_assoc, <- Efj.
    destruct (spec_runes_total t tw ta Hok (mkpos 1 1) (done ++ firstn j seg)) as [p Hp]. rewrite Hp.
    exists p, (with_cache s (b ++ (N.of_nat (length (encs (firstn j0 seg)) + length (encs mid)), p) :: a)).
    split; [reflexivity|]. split; [reflexivity|].
    repeat split; try assumption. cbn [ps_cache with_cache]. apply Forall_app. split; [exact Hcb|].
    constructor; [|exact Hca]. exists j. cbn [fst snd]. repeat split; [exact Hj|symmetry; exact Eidx|exact Hp].
Qed.

Lemma drain_ok t tw ta done seg flag s : table_ok t -> Inv t tw ta done seg flag s ->
  scalars seg ->
  exists s', drain t s = Some s' /\ Inv t tw ta (done ++ seg) [] flag s'.
Proof.
  intros Hok HI Hs. pose proof HI as (Hm & _).
  destruct (query_ok t tw ta done seg flag s (length seg) Hok HI Hs (le_n _)) as (p & s' & Hq & Hsp & HI').
  unfold drain, rebase_origin. rewrite Hm, <- boff_all, Hq. eexists. split; [reflexivity|].
  destruct HI' as (Hm' & Htw & Hta & Hfl & _ & Hcr & _). rewrite firstn_all in Hsp.
  repeat split; cbn [ps_match ps_tabw ps_taba ps_reset ps_origin ps_ofcr ps_cache set_match with_origin]; try assumption.
  - rewrite Hm'. destruct seg as [|r seg'].
    + cbn [encs flat_map]. rewrite app_nil_r. exact Hcr.
    + assert (Hne : r :: seg' <> []) by discriminate.
      rewrite <- (encs_last_cr done (r :: seg') Hs Hne).
      inversion Hs as [|? ? Hr _]; subst. rewrite encs_cons.
      destruct (enc r ++ encs seg') eqn:E; [exfalso; exact (enc_app_nonnil r _ Hr E)|reflexivity].
  - constructor.
Qed.

Lemma spec_pos_boundary t tw ta o done seg j : scalars done -> scalars seg -> (j <= length seg)%nat ->
  spec_pos t tw ta o (encs (done ++ seg)) (N.of_nat (length (encs done)) + boff seg j)
  = spec_runes t tw ta o (done ++ firstn j seg).
Proof.
  intros Hd Hs Hj. unfold spec_pos, boff.
  assert (E : encs (done ++ seg) = encs (done ++ firstn j seg) ++ encs (skipn j seg)).
  { rewrite <- encs_app, <- app_assoc, firstn_skipn. reflexivity. }
  assert (L : N.of_nat (length (encs done)) + N.of_nat (length (encs (firstn j seg))) = N.of_nat (length (encs (done ++ firstn j seg)))).
  { rewrite encs_app, app_length. lia. }
  rewrite L, E, app_length.
  destruct (N.ltb_spec (N.of_nat (length (encs (done ++ firstn j seg)) + length (encs (skipn j seg)))) (N.of_nat (length (encs (done ++ firstn j seg))))) as [H|_]; [lia|].
  rewrite Nat2N.id, firstn_app_exact, decode_all_encs; [reflexivity|].
  apply scalars_app. split; [exact Hd|apply scalars_firstn; exact Hs].
Qed.

Lemma run_ok t tw ta : table_ok t ->
  forall h done seg flag s, Inv t tw ta done seg flag s -> scalars done -> scalars seg ->
    hvalid seg flag h ->
    exists s' ans, run t s (lower seg flag h) = Some (s', ans) /\ map Some ans = expected t tw ta done seg flag h.
Proof.
  intros Hok. induction h as [|o h IH]; intros done seg flag s HI Hd Hs Hv.
  - exists s, []. split; reflexivity.
  - destruct o as [rs|j| | |b]; cbn [lower expected hvalid run step] in *.
    + (* text *)
      destruct Hv as [Hrs Hv]. destruct HI as (Hm & Htw & Hta & Hfl & Ho & Hcr & _).
      assert (HI' : Inv t tw ta done (seg ++ rs) flag (set_match s (ps_match s ++ encs rs))).
      { repeat split; cbn [ps_match ps_tabw ps_taba ps_reset ps_origin ps_ofcr ps_cache set_match]; try assumption.
        - rewrite Hm, encs_app. reflexivity.
        - constructor. }
      destruct (IH done (seg ++ rs) flag _ HI' Hd (proj2 (scalars_app seg rs) (conj Hs Hrs)) Hv) as (s' & ans & Hr & He).
      rewrite Hr. exists s', ans. split; [reflexivity|exact He].
    + (* query *)
      destruct Hv as [Hj Hv].
      destruct (query_ok t tw ta done seg flag s j Hok HI Hs Hj) as (p & s1 & Hq & Hsp & HI1).
      rewrite Hq. destruct (IH done seg flag s1 HI1 Hd Hs Hv) as (s' & ans & Hr & He).
      rewrite Hr. exists s', ([p] ++ ans). split; [reflexivity|].
      cbn [app map]. rewrite He, (spec_pos_boundary t tw ta _ done seg j Hd Hs Hj), Hsp. reflexivity.
    + (* drain *)
      destruct (drain_ok t tw ta done seg flag s Hok HI Hs) as (s1 & Hdr & HI1). rewrite Hdr.
      destruct (IH (done ++ seg) [] flag s1 HI1 (proj2 (scalars_app done seg) (conj Hd Hs)) (Forall_nil _) Hv) as (s' & ans & Hr & He).
      rewrite Hr. exists s', ans. split; [reflexivity|exact He].
    + (* reset *)
      pose proof HI as (_ & _ & _ & Hfl & _). unfold reset. rewrite Hfl. destruct flag.
      * destruct (drain_ok t tw ta done seg true s Hok HI Hs) as (s1 & Hdr & HI1). rewrite Hdr.
        destruct (IH (done ++ seg) [] true s1 HI1 (proj2 (scalars_app done seg) (conj Hd Hs)) (Forall_nil _) Hv) as (s' & ans & Hr & He).
        rewrite Hr. exists s', ans. split; [reflexivity|exact He].
      * destruct (IH done seg false s HI Hd Hs Hv) as (s' & ans & Hr & He).
        rewrite Hr. exists s', ans. split; [reflexivity|exact He].
    + (* flag *)
      destruct HI as (Hm & Htw & Hta & Hfl & Ho & Hcr & Hc).
      assert (HI' : Inv t tw ta done seg b (set_reset_flag s b)) by (repeat split; assumption).
      destruct (IH done seg b _ HI' Hd Hs Hv) as (s' & ans & Hr & He).
      rewrite Hr. exists s', ans. split; [reflexivity|exact He].
Qed.

Lemma Inv_init t tw ta : Inv t tw ta [] [] true (init_state tw ta).
Proof.
  repeat split; cbn [init_state ps_match ps_tabw ps_taba ps_reset ps_origin ps_ofcr ps_cache];
    try apply spec_runes_nil; try reflexivity.
  constructor.
Qed.

Lemma C11_history_independent_proof : stmt_C11_history_independent.
Proof.
  intros t Ht tw ta h _ Hv. pose proof (table_ok_shipped t Ht) as Hok. clear Ht.
  exact (run_ok t tw ta Hok h [] [] true (init_state tw ta) (Inv_init t tw ta) (Forall_nil _) (Forall_nil _) Hv).
Qed.

(* ------------------------------------------------------------------------------------------------ *)
(* 5. The cache                                                                                      *)
(* ------------------------------------------------------------------------------------------------ *)

Lemma ssorted_app a b :
  ssorted (a ++ b) <-> ssorted a /\ ssorted b /\ Forall (fun x => Forall (fun y => x < y) b) a.
Proof.
  induction a as [|x a IH]; cbn [app ssorted].
  - split; [intros H; repeat split; [exact H|constructor]|intros (_ & H & _); exact H].
  - rewrite Forall_app, IH. split.
    + intros ((H1 & H2) & H3 & H4 & H5). repeat split; try assumption. constructor; assumption.
    + intros ((H1 & H3) & H4 & H5). inversion H5; subst. repeat split; assumption.
Qed.

Lemma position_at_sorted t s i p s' : cache_sorted s -> position_at t s i = Some (p, s') -> cache_sorted s'.
Proof.
  intros Hs H. destruct (position_at_cases t s i p s' H) as (b & a & El & [[_ ->]|(Ecl & _ & ->)]); [exact Hs|].
  destruct (lb_spec _ _ _ _ El) as (Hcat & Hb & Ha).
  unfold cache_sorted in *. cbn [ps_cache with_cache]. rewrite Hcat in Hs. rewrite map_app in *. cbn [map fst].
  apply ssorted_app in Hs. destruct Hs as (Sb & Sa & Hba). apply ssorted_app. split; [exact Sb|].
  assert (Hia : Forall (fun y => i < y) (map fst a)).
  { destruct a as [|[i0 q] a']; [constructor|]. cbn [map fst ssorted] in *. destruct Sa as [Sa1 _].
    unfold cache_lookup in Ecl. destruct (i0 =? i) eqn:Ei; [discriminate Ecl|]. apply N.eqb_neq in Ei.
    assert (Hlt : i < i0) by lia. constructor; [exact Hlt|].
    eapply Forall_impl; [|exact Sa1]. cbv beta. intros y Hy. lia. }
  split; [cbn [ssorted]; split; assumption|].
  apply Forall_forall. intros x Hx. constructor.
  - apply in_map_iff in Hx. destruct Hx as [e [<- He]]. rewrite Forall_forall in Hb. apply Hb. exact He.
  - rewrite Forall_forall in Hba. apply Hba. exact Hx.
Qed.

Lemma drain_sorted t s s' : drain t s = Some s' -> cache_sorted s'.
Proof.
  unfold drain, rebase_origin. destruct (position_at t s (N.of_nat (length (ps_match s)))) as [[p s1]|]; [|discriminate].
  intros H. inversion H; subst. exact I.
Qed.

Lemma step_sorted t s o s' a : cache_sorted s -> step t s o = Some (s', a) -> cache_sorted s'.
Proof.
  intros Hs H. destruct o as [bs|i| | |b]; cbn [step] in H.
  - inversion H; subst. exact I.
  - destruct (position_at t s i) as [[p s1]|] eqn:E; [|discriminate H]. inversion H; subst.
    exact (position_at_sorted t s i p s' Hs E).
  - destruct (drain t s) as [s1|] eqn:E; [|discriminate H]. inversion H; subst. exact (drain_sorted t s s' E).
  - unfold reset in H. destruct (ps_reset s).
    + destruct (drain t s) as [s1|] eqn:E; [|discriminate H]. inversion H; subst. exact (drain_sorted t s s' E).
    + inversion H; subst. exact Hs.
  - inversion H; subst. exact Hs.
Qed.

Lemma C11_cache_sorted_proof : stmt_C11_cache_sorted.
Proof.
  intros t s ops. revert s. induction ops as [|o ops IH]; intros s s' ans Hs H; cbn [run] in H.
  - inversion H; subst. exact Hs.
  - destruct (step t s o) as [[s1 a1]|] eqn:E; [|discriminate H].
    destruct (run t s1 ops) as [[s2 a2]|] eqn:E2; [|discriminate H]. inversion H; subst.
    exact (IH s1 s' a2 (step_sorted t s o s1 a1 Hs E) E2).
Qed.

Lemma C11_cache_hit_proof : stmt_C11_cache_hit.
Proof.
  intros t s i p s' H. destruct (position_at_cases t s i p s' H) as (b & a & El & [[_ ->]|(_ & _ & ->)]); [exact H|].
  destruct (lb_spec _ _ _ _ El) as (_ & Hb & _).
  unfold position_at. cbn [ps_cache with_cache]. rewrite (lb_insert b i p a Hb). cbn [cache_lookup].
  rewrite N.eqb_refl. reflexivity.
Qed.

(* ------------------------------------------------------------------------------------------------ *)
(* 6. Special cases and the example                                                                  *)
(* ------------------------------------------------------------------------------------------------ *)

Lemma C11_single_query_proof : stmt_C11_single_query.
Proof.
  intros t Ht tw ta rs j Hta Hs Hj.
  assert (Hv : hvalid [] true [HText rs; HQuery j]) by (cbn [hvalid app]; repeat split; assumption).
  destruct (C11_history_independent_proof t Ht tw ta _ Hta Hv) as (s & ans & Hr & He). clear Ht.
  exists s, ans. split; [exact Hr|]. rewrite He. cbn [expected app encs flat_map length]. rewrite N.add_0_l. reflexivity.
Qed.

Definition hqueries (js : list nat) : list hop := map HQuery js.

Lemma lower_queries seg js j :
  lower seg true (hqueries js ++ [HQuery j]) = queries seg js ++ [OQuery (boff seg j)].
Proof. unfold hqueries, queries. induction js as [|k js IH]; [reflexivity|]. cbn [map app lower]. rewrite IH. reflexivity. Qed.

Lemma hvalid_queries seg js j : Forall (fun k => (k <= length seg)%nat) js -> (j <= length seg)%nat ->
  hvalid seg true (hqueries js ++ [HQuery j]).
Proof.
  intros H Hj. unfold hqueries. induction H as [|k js Hk _ IH]; cbn [map app hvalid]; [split; [exact Hj|exact I]|].
  split; [exact Hk|exact IH].
Qed.

Lemma expected_queries_last t tw ta done seg js j :
  last (expected t tw ta done seg true (hqueries js ++ [HQuery j])) None =
  spec_pos t tw ta (mkpos 1 1) (encs (done ++ seg)) (N.of_nat (length (encs done)) + boff seg j).
Proof.
  unfold hqueries. induction js as [|k js IH]; [reflexivity|]. cbn [map app expected].
  destruct (expected t tw ta done seg true (map HQuery js ++ [HQuery j])) eqn:E; [|exact IH].
  destruct js; discriminate E.
Qed.

Lemma last_map_some (l : list pos) d : l <> [] -> last (map Some l) None = Some (last l d).
Proof.
  induction l as [|x l IH]; [congruence|]. intros _. destruct l as [|y l]; [reflexivity|].
  change (last (map Some (y :: l)) None = Some (last (y :: l) d)). apply IH. discriminate.
Qed.

Lemma last_answer t tw ta rs js j s a : decompress_table = Some t -> 1 <= ta -> scalars rs ->
  Forall (fun k => (k <= length rs)%nat) js -> (j <= length rs)%nat ->
  run t (init_state tw ta) (OText (encs rs) :: queries rs js ++ [OQuery (boff rs j)]) = Some (s, a) ->
  Some (last a (mkpos 0 0)) = spec_pos t tw ta (mkpos 1 1) (encs rs) (boff rs j).
Proof.
  intros Ht Hta Hs Hjs Hj Hr.
  assert (Hv : hvalid [] true (HText rs :: hqueries js ++ [HQuery j])).
  { cbn [hvalid app]. split; [exact Hs|]. apply hvalid_queries; assumption. }
  destruct (C11_history_independent_proof t Ht tw ta _ Hta Hv) as (s' & ans & Hr' & He). clear Ht.
  cbn [lower app] in Hr'. rewrite lower_queries, Hr in Hr'. inversion Hr'; subst s' ans. clear Hr'.
  change (map Some a = expected t tw ta [] rs true (hqueries js ++ [HQuery j])) in He.
  assert (HL : last (expected t tw ta [] rs true (hqueries js ++ [HQuery j])) None =
               spec_pos t tw ta (mkpos 1 1) (encs rs) (boff rs j))
    by (rewrite expected_queries_last; reflexivity).
  rewrite <- He in HL. rewrite <- HL.
  symmetry. apply last_map_some. intros E. subst a. cbn [map] in He.
  destruct js; discriminate He.
Qed.

Lemma C11_query_order_independent_proof : stmt_C11_query_order_independent.
Proof.
  intros t Ht tw ta rs js1 js2 j Hta Hs H1 H2 Hj s1 a1 s2 a2 R1 R2.
  pose proof (last_answer t tw ta rs js1 j s1 a1 Ht Hta Hs H1 Hj R1) as E1.
  pose proof (last_answer t tw ta rs js2 j s2 a2 Ht Hta Hs H2 Hj R2) as E2. clear Ht R1 R2.
  rewrite <- E2 in E1. inversion E1. reflexivity.
Qed.

(* the example, by evaluation on the shipped tables *)
Definition pos_eqb (p q : pos) : bool := (p_line p =? p_line q) && (p_col p =? p_col q).
Lemma pos_eqb_eq p q : pos_eqb p q = true -> p = q.
Proof.
  unfold pos_eqb. intros H. apply andb_true_iff in H. destruct H as [H1 H2]. apply N.eqb_eq in H1, H2.
  destruct p, q. cbn in *. subst. reflexivity.
Qed.

Fixpoint poss_eqb (a b : list pos) : bool :=
  match a, b with
  | [], [] => true
  | p :: a', q :: b' => pos_eqb p q && poss_eqb a' b'
  | _, _ => false
  end.
Lemma poss_eqb_eq : forall a b, poss_eqb a b = true -> a = b.
Proof.
  induction a as [|p a IH]; intros [|q b] H; try discriminate H; [reflexivity|].
  cbn [poss_eqb] in H. apply andb_true_iff in H. destruct H as [H1 H2].
  rewrite (pos_eqb_eq _ _ H1), (IH b H2). reflexivity.
Qed.

Definition answers_are (r : option (pstate * list pos)) (l : list pos) : bool :=
  match r with Some (_, a) => poss_eqb a l | None => false end.
Lemma answers_are_spec r l : answers_are r l = true -> exists s, r = Some (s, l).
Proof.
  unfold answers_are. destruct r as [[s a]|]; [|discriminate]. intros H. exists s.
  rewrite (poss_eqb_eq _ _ H). reflexivity.
Qed.

Definition opt_is (o : option pos) (q : pos) : bool := match o with Some p => pos_eqb p q | None => false end.
Lemma opt_is_spec o q : opt_is o q = true -> o = Some q.
Proof. unfold opt_is. destruct o as [p|]; [|discriminate]. intros H. rewrite (pos_eqb_eq _ _ H). reflexivity. Qed.

Fixpoint opts_are (a : list (option pos)) (b : list pos) : bool :=
  match a, b with
  | [], [] => true
  | o :: a', q :: b' => opt_is o q && opts_are a' b'
  | _, _ => false
  end.
Lemma opts_are_spec : forall a b, opts_are a b = true -> a = map Some b.
Proof.
  induction a as [|o a IH]; intros [|q b] H; try discriminate H; [reflexivity|].
  cbn [opts_are] in H. apply andb_true_iff in H. destruct H as [H1 H2].
  cbn [map]. rewrite (opt_is_spec _ _ H1), (IH b H2). reflexivity.
Qed.

Definition example_answers : list pos := [mkpos 2 1; mkpos 3 1; mkpos 3 1; mkpos 3 2; mkpos 2 1].
Definition ex_spec (t : ucd_table) : bool := opts_are (expected t 8 8 [] [] true example_history) example_answers.
Definition ex_run (t : ucd_table) : bool :=
  answers_are (run t (init_state 8 8) (lower [] true example_history)) example_answers.
Lemma ex_spec_ok : with_table ex_spec = true. Proof. vm_compute. reflexivity. Qed.
Lemma ex_run_ok : with_table ex_run = true. Proof. vm_compute. reflexivity. Qed.

Lemma C11_example_proof : stmt_C11_example.
Proof.
  split.
  - unfold example_history. cbn [hvalid app length]. repeat split; try lia; repeat constructor.
  - intros t Ht.
    pose proof (with_table_elim _ t Ht ex_spec_ok) as W1.
    pose proof (with_table_elim _ t Ht ex_run_ok) as W2. clear Ht.
    split; [exact (opts_are_spec _ _ W1)|exact (answers_are_spec _ _ W2)].
Qed.
