(* Proofs of the C11 obligations (statements: Pos/PosSpec.v; model: Pos/PosModel.v).

   Structure
   1. facts about UTF-8 texts (from the C13 theorems): an encoded character decodes to itself and to
      its own length whatever follows, so scanning the bytes of a list of characters is scanning the
      characters;
   2. facts about the shipped tables (from the C14 theorems): every lookup succeeds and the
      Line_Ending property is exactly {LF, VT, FF, CR, NEL, LS, PS};
   3. the two loops of position_at, started anywhere, compute [spec_runes] of the characters they scan
      as long as no CR LF pair is involved; [spec_runes] composes over concatenation under the same
      condition;
   4. an invariant (every cache entry and the origin hold the specified position) carried through
      arbitrary histories;
   5. the cache lemmas (sortedness, repeated query);
   6. the refutations, by evaluation on the shipped tables. *)
From Coq Require Import NArith ZArith List Bool Lia.
From Lug Require Import Gen.UcdTables Utf8.Utf8Model Utf8.Utf8Spec Utf8.Utf8Stmts Utf8.Utf8Proofs
  Ucd.Rle Ucd.Lookup Ucd.UcdSpec Ucd.UcdProofs Pos.PosModel Pos.PosSpec.
Import ListNotations.
Local Open Scope N_scope.

Strategy opaque [decompress_table].

(* ------------------------------------------------------------------------------------------------ *)
(* 1. UTF-8 texts                                                                                    *)
(* ------------------------------------------------------------------------------------------------ *)

Lemma enc_length r : is_scalar r = true -> length (enc r) = utf8_len r.
Proof. intros H. destruct (C13_encode_scalar_proof r [] H) as (_ & L & _ & _). exact L. Qed.

Lemma utf8_len_pos r : (1 <= utf8_len r)%nat.
Proof. destruct (utf8_len_cases r) as [[_ L]|[[_ L]|[[_ L]|[_ L]]]]; rewrite L; lia. Qed.

Lemma enc_length_pos r : is_scalar r = true -> (1 <= length (enc r))%nat.
Proof. intros H. rewrite (enc_length r H). apply utf8_len_pos. Qed.

Lemma enc_bytes_ok r : is_scalar r = true -> bytes_ok (enc r).
Proof. intros H. destruct (C13_encode_scalar_proof r [] H) as (_ & _ & B & _). exact B. Qed.

Lemma encs_bytes_ok rs : scalars rs -> bytes_ok (encs rs).
Proof.
  induction 1 as [|r rs Hr _ IH]; [constructor|].
  unfold bytes_ok in *. cbn [encs flat_map]. apply Forall_app. split; [apply enc_bytes_ok; exact Hr|exact IH].
Qed.

Lemma dec_enc r rest : is_scalar r = true -> bytes_ok rest ->
  decode_rune (enc r ++ rest) = (length (enc r), r).
Proof. intros H B. rewrite (enc_length r H). exact (C13_roundtrip_proof r rest H B). Qed.

Lemma encs_cons r rs : encs (r :: rs) = enc r ++ encs rs.
Proof. reflexivity. Qed.

Lemma encs_app a b : encs (a ++ b) = encs a ++ encs b.
Proof. unfold encs. apply flat_map_app. Qed.

Lemma skipn_app_exact {A} (a b : list A) : skipn (length a) (a ++ b) = b.
Proof. induction a as [|x a IH]; [reflexivity|exact IH]. Qed.

Lemma firstn_app_exact {A} (a b : list A) : firstn (length a) (a ++ b) = a.
Proof. induction a as [|x a IH]; [destruct b; reflexivity|cbn; f_equal; exact IH]. Qed.

Lemma enc_app_nonnil r rest : is_scalar r = true -> enc r ++ rest <> [].
Proof.
  intros H E. pose proof (enc_length_pos r H) as L. destruct (enc r); [cbn in L; lia|discriminate E].
Qed.

Lemma scalars_app a b : scalars (a ++ b) <-> scalars a /\ scalars b.
Proof. unfold scalars. apply Forall_app. Qed.

Lemma scalars_firstn j rs : scalars rs -> scalars (firstn j rs).
Proof. intros H. rewrite <- (firstn_skipn j rs) in H. apply scalars_app in H. apply H. Qed.

Lemma scalars_skipn j rs : scalars rs -> scalars (skipn j rs).
Proof. intros H. rewrite <- (firstn_skipn j rs) in H. apply scalars_app in H. apply H. Qed.

Lemma decode_all_fuel_encs : forall rs fuel, scalars rs -> (length (encs rs) <= fuel)%nat ->
  decode_all_fuel fuel (encs rs) = rs.
Proof.
  induction rs as [|r rs IH]; intros fuel Hs Hf.
  - destruct fuel; reflexivity.
  - inversion Hs as [|? ? Hr Hrs]; subst. rewrite encs_cons in *.
    pose proof (enc_length_pos r Hr) as L. rewrite app_length in Hf.
    destruct fuel as [|f]; [lia|].
    destruct (enc r ++ encs rs) as [|x l] eqn:E; [exfalso; exact (enc_app_nonnil r _ Hr E)|].
    cbn [decode_all_fuel]. rewrite <- E. rewrite (dec_enc r _ Hr (encs_bytes_ok rs Hrs)).
    replace (Nat.max (length (enc r)) 1) with (length (enc r)) by lia.
    rewrite skipn_app_exact. f_equal. apply IH; [exact Hrs|lia].
Qed.

Lemma decode_all_encs rs : scalars rs -> decode_all (encs rs) = rs.
Proof. intros H. unfold decode_all. apply decode_all_fuel_encs; [exact H|lia]. Qed.

(* ------------------------------------------------------------------------------------------------ *)
(* 2. The shipped tables                                                                             *)
(* ------------------------------------------------------------------------------------------------ *)

Lemma with_table_elim (f : ucd_table -> bool) t : decompress_table = Some t -> with_table f = true -> f t = true.
Proof. intros Ht H. rewrite <- (with_table_spec f t Ht). exact H. Qed.

Definition table_ok (t : ucd_table) : Prop :=
  forall cp, exists r, query t cp = Some r /\ has (rec_props r) ptype_Line_Ending = is_line_ending cp.

Definition chk_invalid_le (t : ucd_table) : bool :=
  match record_at t invalid_record_index with
  | Some x => negb (has (rec_props x) ptype_Line_Ending)
  | None => false
  end.
Lemma invalid_le_ok : with_table chk_invalid_le = true.
Proof. vm_compute. reflexivity. Qed.

Lemma is_line_ending_small cp : is_line_ending cp = true -> cp < rune_limit.
Proof.
  unfold is_line_ending, rune_limit. intros H.
  repeat (apply orb_true_iff in H; destruct H as [H|H]); apply N.eqb_eq in H; subst; reflexivity.
Qed.

Lemma table_ok_shipped t : decompress_table = Some t -> table_ok t.
Proof.
  intros Ht cp. destruct (N.lt_ge_cases cp rune_limit) as [Hlt|Hge].
  - destruct (C14_standard_constants_proof t Ht cp Hlt) as [r [Hq Hc]]. clear Ht.
    exists r. split; [exact Hq|]. unfold chk_constants in Hc.
    repeat (apply andb_true_iff in Hc; destruct Hc as [Hc ?]).
    match goal with H : Bool.eqb (p r ptype_Line_Ending) _ = true |- _ => apply Bool.eqb_prop in H; exact H end.
  - pose proof (with_table_elim _ t Ht invalid_le_ok) as Hi. clear Ht. unfold chk_invalid_le in Hi.
    pose proof (query_out_of_range t cp Hge) as Hq.
    destruct (record_at t invalid_record_index) as [x|] eqn:Ex; [|discriminate Hi].
    exists x. split; [exact Hq|].
    apply negb_true_iff in Hi. rewrite Hi. symmetry.
    destruct (is_line_ending cp) eqn:E; [|reflexivity].
    apply is_line_ending_small in E. lia.
Qed.

Lemma ucwidth_total t : table_ok t -> forall r, exists w, ucwidth t r = Some w.
Proof.
  intros Hok r. destruct (Hok r) as [x [Hq _]]. unfold ucwidth, cwidth. rewrite Hq. eexists. reflexivity.
Qed.

(* ------------------------------------------------------------------------------------------------ *)
(* 3a. The specification over concatenations                                                         *)
(* ------------------------------------------------------------------------------------------------ *)

Fixpoint simple_count (rs : list N) : N :=
  match rs with [] => 0 | r :: rest => (if is_line_ending r then 1 else 0) + simple_count rest end.

Lemma count_no_crlf rs : no_crlf rs = true -> count_line_endings rs = simple_count rs.
Proof.
  induction rs as [|r rest IH]; [reflexivity|]. cbn [no_crlf count_line_endings simple_count].
  intros H. apply andb_true_iff in H. destruct H as [H1 H2]. rewrite (IH H2), H1, andb_true_r. reflexivity.
Qed.

Lemma simple_count_app a b : simple_count (a ++ b) = simple_count a + simple_count b.
Proof. induction a as [|r a IH]; [reflexivity|]. cbn [app simple_count]. rewrite IH. lia. Qed.

Lemma head_is_lf_app a b : a <> [] -> head_is_lf (a ++ b) = head_is_lf a.
Proof. destruct a; [congruence|reflexivity]. Qed.

Lemma no_crlf_app a b : no_crlf (a ++ b) = true -> no_crlf a = true /\ no_crlf b = true.
Proof.
  induction a as [|r a IH]; [intros H; split; [reflexivity|exact H]|].
  cbn [app no_crlf]. intros H. apply andb_true_iff in H. destruct H as [H1 H2].
  destruct (IH H2) as [Ha Hb]. split; [|exact Hb]. rewrite Ha, andb_true_r.
  destruct a as [|x a]; [|exact H1].
  cbn [head_is_lf]. rewrite andb_false_r. reflexivity.
Qed.

Lemma no_crlf_firstn j rs : no_crlf rs = true -> no_crlf (firstn j rs) = true.
Proof. intros H. rewrite <- (firstn_skipn j rs) in H. apply no_crlf_app in H. apply H. Qed.

Lemma no_crlf_skipn j rs : no_crlf rs = true -> no_crlf (skipn j rs) = true.
Proof. intros H. rewrite <- (firstn_skipn j rs) in H. apply no_crlf_app in H. apply H. Qed.

Lemma has_le_app a b : has_line_ending (a ++ b) = has_line_ending a || has_line_ending b.
Proof. unfold has_line_ending. apply existsb_app. Qed.

Lemma current_line_none rs : has_line_ending rs = false -> current_line rs = rs.
Proof.
  destruct rs as [|r rest]; [reflexivity|]. unfold has_line_ending. cbn [existsb current_line].
  intros H. apply orb_false_iff in H. destruct H as [H1 H2]. unfold has_line_ending. rewrite H2, H1. reflexivity.
Qed.

Lemma current_line_app a b :
  current_line (a ++ b) = if has_line_ending b then current_line b else current_line a ++ b.
Proof.
  induction a as [|r a IH].
  - cbn [app current_line]. destruct (has_line_ending b) eqn:E; [reflexivity|]. apply current_line_none. exact E.
  - cbn [app current_line]. rewrite has_le_app, IH.
    destruct (has_line_ending b) eqn:Eb.
    + rewrite orb_true_r. reflexivity.
    + rewrite orb_false_r. destruct (has_line_ending a); [reflexivity|].
      destruct (is_line_ending r); reflexivity.
Qed.

Lemma current_line_suffix rs : exists pre, rs = pre ++ current_line rs.
Proof.
  induction rs as [|r rest [pre IH]]; [exists []; reflexivity|]. cbn [current_line].
  destruct (has_line_ending rest).
  - exists (r :: pre). cbn [app]. f_equal. exact IH.
  - destruct (is_line_ending r); [exists [r]; reflexivity|exists []; reflexivity].
Qed.

Lemma columns_app t tw ta x y c :
  columns t tw ta (x ++ y) c = match columns t tw ta x c with Some c' => columns t tw ta y c' | None => None end.
Proof.
  revert c. induction x as [|r x IH]; intros c; [reflexivity|]. cbn [app columns].
  destruct (advance t tw ta c r); [apply IH|reflexivity].
Qed.

Lemma columns_total t tw ta : table_ok t -> forall rs c, exists c', columns t tw ta rs c = Some c'.
Proof.
  intros Hok. induction rs as [|r rs IH]; intros c; [exists c; reflexivity|]. cbn [columns]. unfold advance.
  destruct (r =? 9); [apply IH|]. destruct (ucwidth_total t Hok r) as [w Hw]. rewrite Hw. apply IH.
Qed.

Lemma spec_runes_total t tw ta : table_ok t -> forall o rs, exists p, spec_runes t tw ta o rs = Some p.
Proof.
  intros Hok o rs. unfold spec_runes.
  destruct (columns_total t tw ta Hok (current_line rs) (if has_line_ending rs then 1 else p_col o)) as [c Hc].
  rewrite Hc. eexists. reflexivity.
Qed.

Lemma spec_runes_nil t tw ta o : spec_runes t tw ta o [] = Some o.
Proof. unfold spec_runes. cbn. destruct o as [l c]. cbn. rewrite N.add_0_r. reflexivity. Qed.

(* positions compose: the position after a ++ b is the position after b in a text that starts where
   a ends -- provided no CR LF pair straddles or lies inside *)
Lemma spec_runes_app t tw ta o a b p : no_crlf (a ++ b) = true ->
  spec_runes t tw ta o a = Some p -> spec_runes t tw ta o (a ++ b) = spec_runes t tw ta p b.
Proof.
  intros Hn Ha. destruct (no_crlf_app a b Hn) as [Hna Hnb].
  unfold spec_runes in *. rewrite (count_no_crlf _ Hn), simple_count_app, <- (count_no_crlf _ Hna), <- (count_no_crlf _ Hnb).
  rewrite has_le_app, current_line_app.
  destruct (columns t tw ta (current_line a) (if has_line_ending a then 1 else p_col o)) as [ca|] eqn:Ea; [|discriminate Ha].
  inversion Ha; subst p; clear Ha. cbn [p_line p_col].
  destruct (has_line_ending b) eqn:Eb.
  - rewrite orb_true_r. destruct (columns t tw ta (current_line b) 1); [|reflexivity]. f_equal. f_equal. lia.
  - rewrite orb_false_r, columns_app, Ea, (current_line_none b Eb).
    destruct (columns t tw ta b ca); [|reflexivity]. f_equal. f_equal. lia.
Qed.

(* ------------------------------------------------------------------------------------------------ *)
(* 3b. The two loops of position_at over the bytes of a list of characters                           *)
(* ------------------------------------------------------------------------------------------------ *)

Lemma scan_lines_step t f cur prev p first : cur <> [] ->
  scan_lines t (S f) cur prev p first =
  (let '(n, rune) := decode_rune cur in
   let next := skipn n cur in
   match query t rune with
   | None => None
   | Some r => if has (rec_props r) ptype_Line_Ending && negb ((prev =? 13) && (rune =? 10))
               then scan_lines t f next rune (mkpos (p_line p + 1) 1) next
               else scan_lines t f next rune p first
   end).
Proof. destruct cur; [congruence|reflexivity]. Qed.

Lemma scan_cols_step t tw ta f cur col : cur <> [] ->
  scan_cols t tw ta (S f) cur col =
  (let '(n, rune) := decode_rune cur in
   let next := skipn n cur in
   if rune =? 9 then scan_cols t tw ta f next (tab_column tw ta col)
   else match ucwidth t rune with
        | Some w => scan_cols t tw ta f next (col + w)
        | None => None
        end).
Proof. destruct cur; [congruence|reflexivity]. Qed.

Lemma has_le_cons r rest : has_line_ending (r :: rest) = is_line_ending r || has_line_ending rest.
Proof. reflexivity. Qed.

(* first loop: as long as the scan does not begin between a CR and its LF and meets no CR LF pair, it
   counts the line endings and leaves `first` at the start of the last line *)
Lemma scan_lines_runes t : table_ok t ->
  forall rs fuel prev p first, scalars rs -> (length (encs rs) <= fuel)%nat ->
    (prev =? 13) && head_is_lf rs = false -> no_crlf rs = true ->
    scan_lines t fuel (encs rs) prev p first =
    Some (mkpos (p_line p + count_line_endings rs) (if has_line_ending rs then 1 else p_col p),
          if has_line_ending rs then encs (current_line rs) else first).
Proof.
  intros Hok. induction rs as [|r rest IH]; intros fuel prev p first Hs Hf Hprev Hn.
  - cbn [encs flat_map]. destruct fuel; cbn [scan_lines has_line_ending existsb count_line_endings];
      destruct p as [l c]; cbn [p_line p_col]; rewrite N.add_0_r; reflexivity.
  - inversion Hs as [|? ? Hr Hrest]; subst. rewrite encs_cons in *.
    pose proof (enc_length_pos r Hr) as L. rewrite app_length in Hf.
    destruct fuel as [|f]; [lia|].
    rewrite (scan_lines_step t f _ prev p first (enc_app_nonnil r _ Hr)).
    rewrite (dec_enc r _ Hr (encs_bytes_ok rest Hrest)). cbv beta iota zeta.
    rewrite skipn_app_exact.
    destruct (Hok r) as [x [Hq Hle]]. rewrite Hq, Hle.
    cbn [no_crlf] in Hn. apply andb_true_iff in Hn. destruct Hn as [Hn1 Hn2]. apply negb_true_iff in Hn1.
    cbn [head_is_lf] in Hprev. rewrite Hprev. cbn [negb]. rewrite andb_true_r.
    rewrite has_le_cons. cbn [count_line_endings current_line]. rewrite Hn1. cbn [negb]. rewrite andb_true_r.
    assert (Hf' : (length (encs rest) <= f)%nat) by lia.
    destruct (is_line_ending r) eqn:Er.
    + rewrite (IH f r (mkpos (p_line p + 1) 1) (encs rest) Hrest Hf' Hn1 Hn2). cbn [p_line p_col orb].
      rewrite N.add_assoc. destruct (has_line_ending rest); reflexivity.
    + rewrite (IH f r p first Hrest Hf' Hn1 Hn2). cbn [orb]. rewrite N.add_0_l.
      destruct (has_line_ending rest); reflexivity.
Qed.

Lemma tab_column_stop tw ta c : tab_column tw ta c = tab_stop tw ta c.
Proof.
  unfold tab_column, tab_stop. cbv zeta. generalize ((c + tw - 1) mod ta). intros m. lia.
Qed.

(* second loop: adds up the columns of the characters it is given *)
Lemma scan_cols_runes t tw ta : forall rs fuel c, scalars rs -> (length (encs rs) <= fuel)%nat ->
  scan_cols t tw ta fuel (encs rs) c = columns t tw ta rs c.
Proof.
  induction rs as [|r rest IH]; intros fuel c Hs Hf.
  - cbn [encs flat_map]. destruct fuel; reflexivity.
  - inversion Hs as [|? ? Hr Hrest]; subst. rewrite encs_cons in *.
    pose proof (enc_length_pos r Hr) as L. rewrite app_length in Hf.
    destruct fuel as [|f]; [lia|].
    rewrite (scan_cols_step t tw ta f _ c (enc_app_nonnil r _ Hr)).
    rewrite (dec_enc r _ Hr (encs_bytes_ok rest Hrest)). cbv beta iota zeta.
    rewrite skipn_app_exact. cbn [columns]. unfold advance.
    assert (Hf' : (length (encs rest) <= f)%nat) by lia.
    destruct (r =? 9).
    + rewrite tab_column_stop. apply IH; assumption.
    + destruct (ucwidth t r); [apply IH; assumption|reflexivity].
Qed.

(* the two loops together, started at any boundary with any position p: the specified position of the
   characters scanned, in a text that starts at p *)
Lemma compute_runes t s tw ta : table_ok t -> ps_tabw s = tw -> ps_taba s = ta ->
  forall pre mid post p, ps_match s = encs pre ++ encs mid ++ post -> scalars mid -> no_crlf mid = true ->
    compute_position t s (N.of_nat (length (encs pre)), p) (N.of_nat (length (encs pre) + length (encs mid)))
    = spec_runes t tw ta p mid.
Proof.
  intros Hok Htw Hta pre mid post p Hm Hs Hn. unfold compute_position. rewrite Hm, Htw, Hta.
  rewrite Nat2N.id, skipn_app_exact.
  replace (N.to_nat (N.of_nat (length (encs pre) + length (encs mid)) - N.of_nat (length (encs pre)))) with (length (encs mid)) by lia.
  rewrite firstn_app_exact.
  rewrite (scan_lines_runes t Hok mid (length (encs mid)) 0 p (encs mid) Hs (le_n _) eq_refl Hn).
  assert (E : (if has_line_ending mid then encs (current_line mid) else encs mid) = encs (current_line mid)).
  { destruct (has_line_ending mid) eqn:Eh; [reflexivity|]. rewrite (current_line_none mid Eh). reflexivity. }
  rewrite E. cbn [p_line p_col].
  assert (Hsc : scalars (current_line mid)).
  { destruct (current_line_suffix mid) as [pre' Hp]. rewrite Hp in Hs. apply scalars_app in Hs. apply Hs. }
  rewrite (scan_cols_runes t tw ta (current_line mid) _ _ Hsc (le_n _)).
  unfold spec_runes. reflexivity.
Qed.

(* ------------------------------------------------------------------------------------------------ *)
(* 4. Boundaries, the cache, the invariant                                                           *)
(* ------------------------------------------------------------------------------------------------ *)

Lemma firstn_split {A} : forall j1 j2 (l : list A), (j1 <= j2)%nat ->
  firstn j2 l = firstn j1 l ++ firstn (j2 - j1) (skipn j1 l).
Proof.
  induction j1 as [|j1 IH]; intros j2 l H.
  - cbn [firstn skipn app]. rewrite Nat.sub_0_r. reflexivity.
  - destruct j2 as [|j2]; [lia|]. destruct l as [|x l]; [cbn; rewrite firstn_nil; reflexivity|].
    cbn [firstn skipn app Nat.sub]. f_equal. apply IH. lia.
Qed.

Lemma encs_length_ge rs : scalars rs -> (length rs <= length (encs rs))%nat.
Proof.
  induction 1 as [|r rs Hr _ IH]; [cbn; lia|]. rewrite encs_cons, app_length. cbn [length].
  pose proof (enc_length_pos r Hr). lia.
Qed.

Lemma boff_le seg j1 j2 : (j1 <= j2)%nat -> boff seg j1 <= boff seg j2.
Proof.
  intros H. unfold boff. rewrite (firstn_split j1 j2 seg H), encs_app, app_length. lia.
Qed.

Lemma boff_lt seg j1 j2 : scalars seg -> (j1 < j2 <= length seg)%nat -> boff seg j1 < boff seg j2.
Proof.
  intros Hs H. unfold boff. rewrite (firstn_split j1 j2 seg) by lia. rewrite encs_app, app_length.
  assert (Hs' : scalars (firstn (j2 - j1) (skipn j1 seg))) by (apply scalars_firstn, scalars_skipn; exact Hs).
  pose proof (encs_length_ge _ Hs') as L. rewrite firstn_length, skipn_length in L. lia.
Qed.

Lemma boff_inj seg j1 j2 : scalars seg -> (j1 <= length seg)%nat -> (j2 <= length seg)%nat ->
  boff seg j1 = boff seg j2 -> j1 = j2.
Proof.
  intros Hs H1 H2 E. destruct (Nat.lt_trichotomy j1 j2) as [H|[H|H]]; [|exact H|].
  - pose proof (boff_lt seg j1 j2 Hs (conj H H2)). lia.
  - pose proof (boff_lt seg j2 j1 Hs (conj H H1)). lia.
Qed.

Lemma boff_all seg : boff seg (length seg) = N.of_nat (length (encs seg)).
Proof. unfold boff. rewrite firstn_all. reflexivity. Qed.

Lemma lb_spec : forall c i b a, lower_bound c i = (b, a) ->
  c = b ++ a /\ Forall (fun e => fst e < i) b /\ match a with [] => True | e :: _ => i <= fst e end.
Proof.
  induction c as [|e c IH]; intros i b a H.
  - inversion H; subst. repeat split. constructor.
  - cbn [lower_bound] in H. destruct (fst e <? i) eqn:E.
    + destruct (lower_bound c i) as [b' a'] eqn:El. inversion H; subst.
      destruct (IH i b' a El) as (H1 & H2 & H3). repeat split.
      * cbn [app]. f_equal. exact H1.
      * constructor; [apply N.ltb_lt; exact E|exact H2].
      * exact H3.
    + inversion H; subst. repeat split; [constructor|]. apply N.ltb_ge in E. exact E.
Qed.

Lemma lb_insert : forall b i p a, Forall (fun e => fst e < i) b ->
  lower_bound (b ++ (i, p) :: a) i = (b, (i, p) :: a).
Proof.
  induction b as [|e b IH]; intros i p a H.
  - cbn [app lower_bound fst]. rewrite N.ltb_irrefl. reflexivity.
  - inversion H as [|? ? He Hb]; subst. cbn [app lower_bound]. apply N.ltb_lt in He. rewrite He.
    rewrite (IH i p a Hb). reflexivity.
Qed.

(* what position_at does, in two cases *)
Lemma position_at_cases t s i p s' : position_at t s i = Some (p, s') ->
  exists b a, lower_bound (ps_cache s) i = (b, a) /\
    ((cache_lookup a i = Some p /\ s' = s) \/
     (cache_lookup a i = None /\ compute_position t s (last b (0, ps_origin s)) i = Some p /\
      s' = with_cache s (b ++ (i, p) :: a))).
Proof.
  unfold position_at. destruct (lower_bound (ps_cache s) i) as [b a]. intros H. exists b, a. split; [reflexivity|].
  destruct (cache_lookup a i) as [q|].
  - left. inversion H; subst. split; reflexivity.
  - right. destruct (N.of_nat (length (ps_match s)) <? i); [discriminate H|].
    destruct (compute_position t s (last b (0, ps_origin s)) i) as [q|]; [|discriminate H].
    inversion H; subst. repeat split.
Qed.

Definition entry_ok (t : ucd_table) (tw ta : N) (done seg : list N) (e : N * pos) : Prop :=
  exists j, (j <= length seg)%nat /\ fst e = boff seg j /\
            spec_runes t tw ta (mkpos 1 1) (done ++ firstn j seg) = Some (snd e).

(* the state of an environment that has released the characters [done] and holds the segment [seg] *)
Definition Inv (t : ucd_table) (tw ta : N) (done seg : list N) (flag : bool) (s : pstate) : Prop :=
  ps_match s = encs seg /\ ps_tabw s = tw /\ ps_taba s = ta /\ ps_reset s = flag /\
  spec_runes t tw ta (mkpos 1 1) done = Some (ps_origin s) /\
  Forall (entry_ok t tw ta done seg) (ps_cache s).

Lemma query_ok t tw ta done seg flag s j : table_ok t -> Inv t tw ta done seg flag s ->
  scalars seg -> no_crlf (done ++ seg) = true -> (j <= length seg)%nat ->
  exists p s', position_at t s (boff seg j) = Some (p, s') /\
               spec_runes t tw ta (mkpos 1 1) (done ++ firstn j seg) = Some p /\
               Inv t tw ta done seg flag s'.
Proof.
  intros Hok (Hm & Htw & Hta & Hfl & Ho & Hc) Hs Hn Hj.
  unfold position_at. destruct (lower_bound (ps_cache s) (boff seg j)) as [b a] eqn:El.
  destruct (lb_spec _ _ _ _ El) as (Hcat & Hb & _).
  pose proof Hc as Hc'. rewrite Hcat in Hc'. apply Forall_app in Hc'. destruct Hc' as [Hcb Hca].
  destruct (cache_lookup a (boff seg j)) as [p|] eqn:Ecl.
  - unfold cache_lookup in Ecl. destruct a as [|[i q] a']; [discriminate Ecl|].
    destruct (i =? boff seg j) eqn:Ei; [|discriminate Ecl]. inversion Ecl; subst q. apply N.eqb_eq in Ei.
    inversion Hca as [|? ? [j0 (Hj0 & Hf & Hsp)] _]; subst. cbn [fst snd] in Hf, Hsp.
    assert (j0 = j) by (apply (boff_inj seg); [exact Hs|exact Hj0|exact Hj|congruence]). subst j0.
    exists p, s. split; [reflexivity|]. split; [exact Hsp|]. repeat split; assumption.
  - assert (Hlen : (N.of_nat (length (ps_match s)) <? boff seg j) = false).
    { apply N.ltb_ge. rewrite Hm, <- boff_all. apply boff_le. exact Hj. }
    rewrite Hlen.
    assert (Hstart : exists j0 p0, last b (0, ps_origin s) = (boff seg j0, p0) /\ (j0 <= j)%nat /\
                                   spec_runes t tw ta (mkpos 1 1) (done ++ firstn j0 seg) = Some p0).
    { destruct b as [|e0 b0].
      - exists O, (ps_origin s). cbn [last firstn]. rewrite app_nil_r. repeat split; [lia|exact Ho].
      - assert (Hne : e0 :: b0 <> []) by discriminate. destruct (exists_last Hne) as [b1 [e1 E1]].
        rewrite E1, last_last. rewrite E1 in Hb, Hcb. apply Forall_app in Hb, Hcb.
        destruct Hb as [_ Hb]. destruct Hcb as [_ Hcb].
        inversion Hb as [|? ? Hlt _]; subst. inversion Hcb as [|? ? [j0 (Hj0 & Hf & Hsp)] _]; subst.
        destruct e1 as [i1 p1]. cbn [fst snd] in *. subst i1. exists j0, p1. repeat split; [|exact Hsp].
        destruct (Nat.le_gt_cases j0 j) as [H|H]; [exact H|].
        assert (boff seg j <= boff seg j0) by (apply boff_le; lia). lia. }
    destruct Hstart as (j0 & p0 & Est & Hj0 & Hsp0). rewrite Est.
    set (mid := firstn (j - j0) (skipn j0 seg)).
    assert (Efj : firstn j seg = firstn j0 seg ++ mid) by (apply firstn_split; exact Hj0).
    assert (Eseg : seg = firstn j0 seg ++ mid ++ skipn j seg).
    { rewrite app_assoc, <- Efj, firstn_skipn. reflexivity. }
    assert (Ematch : ps_match s = encs (firstn j0 seg) ++ encs mid ++ encs (skipn j seg)).
    { rewrite Hm. rewrite Eseg at 1. rewrite !encs_app. reflexivity. }
    assert (Eidx : boff seg j = N.of_nat (length (encs (firstn j0 seg)) + length (encs mid))).
    { unfold boff. rewrite Efj, encs_app, app_length. reflexivity. }
    assert (Hn' : no_crlf ((done ++ firstn j0 seg) ++ mid) = true).
    { rewrite <- app_assoc, <- Efj. rewrite <- (firstn_skipn j seg), app_assoc in Hn. apply no_crlf_app in Hn. apply Hn. }
    assert (Hsm : scalars mid) by (apply scalars_firstn, scalars_skipn; exact Hs).
    unfold boff at 1. rewrite Eidx.
    rewrite (compute_runes t s tw ta Hok Htw Hta (firstn j0 seg) mid (encs (skipn j seg)) p0 Ematch Hsm
               (proj2 (no_crlf_app _ _ Hn'))).
    rewrite <- (spec_runes_app t tw ta (mkpos 1 1) (done ++ firstn j0 seg) mid p0 Hn' Hsp0).
    rewrite <- app_assoc, <- Efj.
    destruct (spec_runes_total t tw ta Hok (mkpos 1 1) (done ++ firstn j seg)) as [p Hp]. rewrite Hp.
    exists p, (with_cache s (b ++ (N.of_nat (length (encs (firstn j0 seg)) + length (encs mid)), p) :: a)).
    split; [reflexivity|]. split; [reflexivity|].
    repeat split; try assumption. cbn [ps_cache with_cache]. apply Forall_app. split; [exact Hcb|].
    constructor; [|exact Hca]. exists j. cbn [fst snd]. repeat split; [exact Hj|symmetry; exact Eidx|exact Hp].
Qed.

Lemma drain_ok t tw ta done seg flag s : table_ok t -> Inv t tw ta done seg flag s ->
  scalars seg -> no_crlf (done ++ seg) = true ->
  exists s', drain t s = Some s' /\ Inv t tw ta (done ++ seg) [] flag s'.
Proof.
  intros Hok HI Hs Hn. pose proof HI as (Hm & _).
  destruct (query_ok t tw ta done seg flag s (length seg) Hok HI Hs Hn (le_n _)) as (p & s' & Hq & Hsp & HI').
  unfold drain. rewrite Hm, <- boff_all, Hq. eexists. split; [reflexivity|].
  destruct HI' as (_ & Htw & Hta & Hfl & _ & _). rewrite firstn_all in Hsp.
  repeat split; cbn [ps_match ps_tabw ps_taba ps_reset ps_origin ps_cache set_match with_origin]; try assumption.
  constructor.
Qed.

Lemma spec_pos_boundary t tw ta o done seg j : scalars done -> scalars seg -> (j <= length seg)%nat ->
  spec_pos t tw ta o (encs (done ++ seg)) (N.of_nat (length (encs done)) + boff seg j)
  = spec_runes t tw ta o (done ++ firstn j seg).
Proof.
  intros Hd Hs Hj. unfold spec_pos, boff.
  assert (E : encs (done ++ seg) = encs (done ++ firstn j seg) ++ encs (skipn j seg)).
  { rewrite <- encs_app, <- app_assoc, firstn_skipn. reflexivity. }
  assert (L : N.of_nat (length (encs done)) + N.of_nat (length (encs (firstn j seg))) = N.of_nat (length (encs (done ++ firstn j seg)))).
  { rewrite encs_app, app_length. lia. }
  rewrite L, E, app_length.
  destruct (N.ltb_spec (N.of_nat (length (encs (done ++ firstn j seg)) + length (encs (skipn j seg)))) (N.of_nat (length (encs (done ++ firstn j seg))))) as [H|_]; [lia|].
  rewrite Nat2N.id, firstn_app_exact, decode_all_encs; [reflexivity|].
  apply scalars_app. split; [exact Hd|apply scalars_firstn; exact Hs].
Qed.

Lemma run_ok t tw ta : table_ok t ->
  forall h done seg flag s, Inv t tw ta done seg flag s -> scalars done -> scalars seg ->
    hvalid seg flag h -> no_crlf (done ++ seg ++ htext h) = true ->
    exists s' ans, run t s (lower seg flag h) = Some (s', ans) /\ map Some ans = expected t tw ta done seg flag h.
Proof.
  intros Hok. induction h as [|o h IH]; intros done seg flag s HI Hd Hs Hv Hn.
  - exists s, []. split; reflexivity.
  - destruct o as [rs|j| | |b]; cbn [lower expected hvalid htext run step] in *.
    + (* text *)
      destruct Hv as [Hrs Hv]. destruct HI as (Hm & Htw & Hta & Hfl & Ho & _).
      assert (HI' : Inv t tw ta done (seg ++ rs) flag (set_match s (ps_match s ++ encs rs))).
      { repeat split; cbn [ps_match ps_tabw ps_taba ps_reset ps_origin ps_cache set_match]; try assumption.
        - rewrite Hm, encs_app. reflexivity.
        - constructor. }
      assert (Hn' : no_crlf (done ++ (seg ++ rs) ++ htext h) = true) by (rewrite <- app_assoc; exact Hn).
      destruct (IH done (seg ++ rs) flag _ HI' Hd (proj2 (scalars_app seg rs) (conj Hs Hrs)) Hv Hn') as (s' & ans & Hr & He).
      rewrite Hr. exists s', ans. split; [reflexivity|exact He].
    + (* query *)
      destruct Hv as [Hj Hv].
      assert (Hn0 : no_crlf (done ++ seg) = true) by (rewrite app_assoc in Hn; apply no_crlf_app in Hn; apply Hn).
      destruct (query_ok t tw ta done seg flag s j Hok HI Hs Hn0 Hj) as (p & s1 & Hq & Hsp & HI1).
      rewrite Hq. destruct (IH done seg flag s1 HI1 Hd Hs Hv Hn) as (s' & ans & Hr & He).
      rewrite Hr. exists s', ([p] ++ ans). split; [reflexivity|].
      cbn [app map]. rewrite He, (spec_pos_boundary t tw ta _ done seg j Hd Hs Hj), Hsp. reflexivity.
    + (* drain *)
      assert (Hn0 : no_crlf (done ++ seg) = true) by (rewrite app_assoc in Hn; apply no_crlf_app in Hn; apply Hn).
      destruct (drain_ok t tw ta done seg flag s Hok HI Hs Hn0) as (s1 & Hdr & HI1). rewrite Hdr.
      assert (Hn' : no_crlf ((done ++ seg) ++ [] ++ htext h) = true) by (cbn [app]; rewrite <- app_assoc; exact Hn).
      destruct (IH (done ++ seg) [] flag s1 HI1 (proj2 (scalars_app done seg) (conj Hd Hs)) (Forall_nil _) Hv Hn') as (s' & ans & Hr & He).
      rewrite Hr. exists s', ans. split; [reflexivity|exact He].
    + (* reset *)
      pose proof HI as (_ & _ & _ & Hfl & _). unfold reset. rewrite Hfl. destruct flag.
      * assert (Hn0 : no_crlf (done ++ seg) = true) by (rewrite app_assoc in Hn; apply no_crlf_app in Hn; apply Hn).
        destruct (drain_ok t tw ta done seg true s Hok HI Hs Hn0) as (s1 & Hdr & HI1). rewrite Hdr.
        assert (Hn' : no_crlf ((done ++ seg) ++ [] ++ htext h) = true) by (cbn [app]; rewrite <- app_assoc; exact Hn).
        destruct (IH (done ++ seg) [] true s1 HI1 (proj2 (scalars_app done seg) (conj Hd Hs)) (Forall_nil _) Hv Hn') as (s' & ans & Hr & He).
        rewrite Hr. exists s', ans. split; [reflexivity|exact He].
      * destruct (IH done seg false s HI Hd Hs Hv Hn) as (s' & ans & Hr & He).
        rewrite Hr. exists s', ans. split; [reflexivity|exact He].
    + (* flag *)
      destruct HI as (Hm & Htw & Hta & Hfl & Ho & Hc).
      assert (HI' : Inv t tw ta done seg b (set_reset_flag s b)) by (repeat split; assumption).
      destruct (IH done seg b _ HI' Hd Hs Hv Hn) as (s' & ans & Hr & He).
      rewrite Hr. exists s', ans. split; [reflexivity|exact He].
Qed.

Lemma Inv_init t tw ta : Inv t tw ta [] [] true (init_state tw ta).
Proof.
  repeat split; cbn [init_state ps_match ps_tabw ps_taba ps_reset ps_origin ps_cache];
    try apply spec_runes_nil; try reflexivity.
  constructor.
Qed.

Lemma C11_history_independent_partial_proof : stmt_C11_history_independent_partial.
Proof.
  intros t Ht tw ta h _ Hv Hn. pose proof (table_ok_shipped t Ht) as Hok. clear Ht.
  exact (run_ok t tw ta Hok h [] [] true (init_state tw ta) (Inv_init t tw ta) (Forall_nil _) (Forall_nil _) Hv Hn).
Qed.

(* ------------------------------------------------------------------------------------------------ *)
(* 5. The cache                                                                                      *)
(* ------------------------------------------------------------------------------------------------ *)

Lemma ssorted_app a b :
  ssorted (a ++ b) <-> ssorted a /\ ssorted b /\ Forall (fun x => Forall (fun y => x < y) b) a.
Proof.
  induction a as [|x a IH]; cbn [app ssorted].
  - split; [intros H; repeat split; [exact H|constructor]|intros (_ & H & _); exact H].
  - rewrite Forall_app, IH. split.
    + intros ((H1 & H2) & H3 & H4 & H5). repeat split; try assumption. constructor; assumption.
    + intros ((H1 & H3) & H4 & H5). inversion H5; subst. repeat split; assumption.
Qed.

Lemma position_at_sorted t s i p s' : cache_sorted s -> position_at t s i = Some (p, s') -> cache_sorted s'.
Proof.
  intros Hs H. destruct (position_at_cases t s i p s' H) as (b & a & El & [[_ ->]|(Ecl & _ & ->)]); [exact Hs|].
  destruct (lb_spec _ _ _ _ El) as (Hcat & Hb & Ha).
  unfold cache_sorted in *. cbn [ps_cache with_cache]. rewrite Hcat in Hs. rewrite map_app in *. cbn [map fst].
  apply ssorted_app in Hs. destruct Hs as (Sb & Sa & Hba). apply ssorted_app. split; [exact Sb|].
  assert (Hia : Forall (fun y => i < y) (map fst a)).
  { destruct a as [|[i0 q] a']; [constructor|]. cbn [map fst ssorted] in *. destruct Sa as [Sa1 _].
    unfold cache_lookup in Ecl. destruct (i0 =? i) eqn:Ei; [discriminate Ecl|]. apply N.eqb_neq in Ei.
    assert (Hlt : i < i0) by lia. constructor; [exact Hlt|].
    eapply Forall_impl; [|exact Sa1]. cbv beta. intros y Hy. lia. }
  split; [cbn [ssorted]; split; assumption|].
  apply Forall_forall. intros x Hx. constructor.
  - apply in_map_iff in Hx. destruct Hx as [e [<- He]]. rewrite Forall_forall in Hb. apply Hb. exact He.
  - rewrite Forall_forall in Hba. apply Hba. exact Hx.
Qed.

Lemma drain_sorted t s s' : drain t s = Some s' -> cache_sorted s'.
Proof.
  unfold drain. destruct (position_at t s (N.of_nat (length (ps_match s)))) as [[p s1]|]; [|discriminate].
  intros H. inversion H; subst. exact I.
Qed.

Lemma step_sorted t s o s' a : cache_sorted s -> step t s o = Some (s', a) -> cache_sorted s'.
Proof.
  intros Hs H. destruct o as [bs|i| | |b]; cbn [step] in H.
  - inversion H; subst. exact I.
  - destruct (position_at t s i) as [[p s1]|] eqn:E; [|discriminate H]. inversion H; subst.
    exact (position_at_sorted t s i p s' Hs E).
  - destruct (drain t s) as [s1|] eqn:E; [|discriminate H]. inversion H; subst. exact (drain_sorted t s s' E).
  - unfold reset in H. destruct (ps_reset s).
    + destruct (drain t s) as [s1|] eqn:E; [|discriminate H]. inversion H; subst. exact (drain_sorted t s s' E).
    + inversion H; subst. exact Hs.
  - inversion H; subst. exact Hs.
Qed.

Lemma C11_cache_sorted_proof : stmt_C11_cache_sorted.
Proof.
  intros t s ops. revert s. induction ops as [|o ops IH]; intros s s' ans Hs H; cbn [run] in H.
  - inversion H; subst. exact Hs.
  - destruct (step t s o) as [[s1 a1]|] eqn:E; [|discriminate H].
    destruct (run t s1 ops) as [[s2 a2]|] eqn:E2; [|discriminate H]. inversion H; subst.
    exact (IH s1 s' a2 (step_sorted t s o s1 a1 Hs E) E2).
Qed.

Lemma C11_cache_hit_proof : stmt_C11_cache_hit.
Proof.
  intros t s i p s' H. destruct (position_at_cases t s i p s' H) as (b & a & El & [[_ ->]|(_ & _ & ->)]); [exact H|].
  destruct (lb_spec _ _ _ _ El) as (_ & Hb & _).
  unfold position_at. cbn [ps_cache with_cache]. rewrite (lb_insert b i p a Hb). cbn [cache_lookup].
  rewrite N.eqb_refl. reflexivity.
Qed.

(* ------------------------------------------------------------------------------------------------ *)
(* 6. The defects, by evaluation on the shipped tables                                               *)
(* ------------------------------------------------------------------------------------------------ *)

Definition pos_eqb (p q : pos) : bool := (p_line p =? p_line q) && (p_col p =? p_col q).
Lemma pos_eqb_eq p q : pos_eqb p q = true -> p = q.
Proof.
  unfold pos_eqb. intros H. apply andb_true_iff in H. destruct H as [H1 H2]. apply N.eqb_eq in H1, H2.
  destruct p, q. cbn in *. subst. reflexivity.
Qed.

Fixpoint poss_eqb (a b : list pos) : bool :=
  match a, b with
  | [], [] => true
  | p :: a', q :: b' => pos_eqb p q && poss_eqb a' b'
  | _, _ => false
  end.
Lemma poss_eqb_eq : forall a b, poss_eqb a b = true -> a = b.
Proof.
  induction a as [|p a IH]; intros [|q b] H; try discriminate H; [reflexivity|].
  cbn [poss_eqb] in H. apply andb_true_iff in H. destruct H as [H1 H2].
  rewrite (pos_eqb_eq _ _ H1), (IH b H2). reflexivity.
Qed.

Definition answers_are (r : option (pstate * list pos)) (l : list pos) : bool :=
  match r with Some (_, a) => poss_eqb a l | None => false end.
Lemma answers_are_spec r l : answers_are r l = true -> exists s, r = Some (s, l).
Proof.
  unfold answers_are. destruct r as [[s a]|]; [|discriminate]. intros H. exists s.
  rewrite (poss_eqb_eq _ _ H). reflexivity.
Qed.

Definition opt_is (o : option pos) (q : pos) : bool := match o with Some p => pos_eqb p q | None => false end.
Lemma opt_is_spec o q : opt_is o q = true -> o = Some q.
Proof. unfold opt_is. destruct o as [p|]; [|discriminate]. intros H. rewrite (pos_eqb_eq _ _ H). reflexivity. Qed.

(* the text "a CR LF b" *)
Definition w_rs : list N := [97; 13; 10; 98].
Lemma w_rs_scalars : scalars w_rs.
Proof. repeat constructor. Qed.

(* a single query of offset 4 (after the b) on a fresh environment answers (2,3); the property demands (2,2):
   the LF of the CR LF pair is counted as a column of line 2 *)
Definition w_single_run (t : ucd_table) : bool :=
  answers_are (run t (init_state 8 8) [OText (encs w_rs); OQuery (boff w_rs 4)]) [mkpos 2 3].
Definition w_single_spec (t : ucd_table) : bool :=
  opt_is (spec_pos t 8 8 (mkpos 1 1) (encs w_rs) (boff w_rs 4)) (mkpos 2 2).
Lemma w_single_run_ok : with_table w_single_run = true. Proof. vm_compute. reflexivity. Qed.
Lemma w_single_spec_ok : with_table w_single_spec = true. Proof. vm_compute. reflexivity. Qed.

Lemma le_1_8 : 1 <= 8. Proof. intros H. discriminate H. Qed.

Lemma C11_crlf_column_refuted_proof : stmt_C11_crlf_column_refuted.
Proof.
  intros H. destruct C14_tables_decode_proof as [t Ht].
  pose proof (with_table_elim _ t Ht w_single_run_ok) as W1.
  pose proof (with_table_elim _ t Ht w_single_spec_ok) as W2.
  assert (Hlen : (4 <= length w_rs)%nat) by (cbn; lia).
  destruct (H t Ht 8 8 w_rs 4%nat le_1_8 w_rs_scalars Hlen) as (s & ans & Hr & He). clear Ht H.
  destruct (answers_are_spec _ _ W1) as [s0 Hr0]. apply opt_is_spec in W2.
  rewrite Hr0 in Hr. rewrite W2 in He. clear Hr0 W1 W2.
  inversion Hr; subst ans. cbn [map] in He. inversion He.
Qed.

(* the same query after a query of offset 2 (between CR and LF) answers (3,2) *)
Definition w_hist_run1 (t : ucd_table) : bool :=
  answers_are (run t (init_state 8 8) (OText (encs w_rs) :: queries w_rs [] ++ [OQuery (boff w_rs 4)])) [mkpos 2 3].
Definition w_hist_run2 (t : ucd_table) : bool :=
  answers_are (run t (init_state 8 8) (OText (encs w_rs) :: queries w_rs [2%nat] ++ [OQuery (boff w_rs 4)]))
              [mkpos 2 1; mkpos 3 2].
Lemma w_hist_run1_ok : with_table w_hist_run1 = true. Proof. vm_compute. reflexivity. Qed.
Lemma w_hist_run2_ok : with_table w_hist_run2 = true. Proof. vm_compute. reflexivity. Qed.

Lemma C11_crlf_history_refuted_proof : stmt_C11_crlf_history_refuted.
Proof.
  intros H. destruct C14_tables_decode_proof as [t Ht].
  pose proof (with_table_elim _ t Ht w_hist_run1_ok) as W1.
  pose proof (with_table_elim _ t Ht w_hist_run2_ok) as W2.
  destruct (answers_are_spec _ _ W1) as [s1 R1]. destruct (answers_are_spec _ _ W2) as [s2 R2].
  assert (Hlen : (4 <= length w_rs)%nat) by (cbn; lia).
  assert (Hjs2 : Forall (fun k => (k <= length w_rs)%nat) [2%nat]) by (repeat constructor; cbn; lia).
  pose proof (H t Ht 8 8 w_rs [] [2%nat] 4%nat le_1_8 w_rs_scalars (Forall_nil _) Hjs2 Hlen s1 _ s2 _ R1 R2) as E.
  clear - E. cbn [last] in E. inversion E.
Qed.

(* hence the full property fails *)
Definition w_h : list hop := [HText w_rs; HQuery 4].
Definition w_full_run (t : ucd_table) : bool :=
  answers_are (run t (init_state 8 8) (lower [] true w_h)) [mkpos 2 3].
Fixpoint opts_are (a : list (option pos)) (b : list pos) : bool :=
  match a, b with
  | [], [] => true
  | o :: a', q :: b' => opt_is o q && opts_are a' b'
  | _, _ => false
  end.
Lemma opts_are_spec : forall a b, opts_are a b = true -> a = map Some b.
Proof.
  induction a as [|o a IH]; intros [|q b] H; try discriminate H; [reflexivity|].
  cbn [opts_are] in H. apply andb_true_iff in H. destruct H as [H1 H2].
  cbn [map]. rewrite (opt_is_spec _ _ H1), (IH b H2). reflexivity.
Qed.
Definition w_full_spec (t : ucd_table) : bool := opts_are (expected t 8 8 [] [] true w_h) [mkpos 2 2].
Lemma w_full_run_ok : with_table w_full_run = true. Proof. vm_compute. reflexivity. Qed.
Lemma w_full_spec_ok : with_table w_full_spec = true. Proof. vm_compute. reflexivity. Qed.

Lemma C11_full_refuted_proof : stmt_C11_full_refuted.
Proof.
  intros H. destruct C14_tables_decode_proof as [t Ht].
  pose proof (with_table_elim _ t Ht w_full_run_ok) as W1.
  pose proof (with_table_elim _ t Ht w_full_spec_ok) as W2.
  assert (Hv : hvalid [] true w_h).
  { cbn [hvalid w_h]. split; [exact w_rs_scalars|]. split; [cbn; lia|exact I]. }
  destruct (H t Ht 8 8 w_h le_1_8 Hv) as (s & ans & Hr & He). clear Ht H.
  destruct (answers_are_spec _ _ W1) as [s0 Hr0]. apply opts_are_spec in W2.
  rewrite Hr0 in Hr. rewrite W2 in He. clear Hr0 W1 W2.
  inversion Hr; subst ans. cbn [map] in He. inversion He.
Qed.
