(* Instructions of the parsing machine in "semantic" form: each carries its payload (string, rune set,
   callback identity) instead of an index into a resource table.  Lang/Lower.v turns a list of these
   into lug's numeric encoding (op, immediate8, immediate16, offset32 + tables), which is what is
   compared with the programs the library builds. *)
From Coq Require Import NArith ZArith List Bool.
From Lug Require Import Ucd.RuneSet.
Import ListNotations.

Definition name := list N.       (* byte strings: labels, condition and symbol names, literals *)

Inductive class_kind := CkAll | CkAny | CkNone.
Inductive symk := SkAll | SkAny | SkHead | SkTail.

Inductive sinstr :=
| IJump (off : Z)
| IChoice (off : Z) (pred : bool)
| ICommit (off : Z)
| ICommitBack (off : Z)
| ICommitPartial (off : Z)
| IAccept (flags : N)                       (* bit 0 = accept, bit 1 = cut *)
| ICall (off : Z) (prec : N)
| IRet
| IFail (n : N)
| IRecoverPush (off : Z)
| IRecoverPop
| IRecoverResp (r : N)
| IReportPush (h : N * N)                   (* handler identity (id, behaviour code) *)
| IReportPop
| IPredicate (p : N * N)                    (* predicate identity (id, parameter) *)
| IAction (a : N)
| ICaptureStart
| ICaptureEnd (c : N)
| IConditionPop
| ISymbolEnd
| ISymbolPop
| IMatchAny (flags : N)
| IMatchEol
| IMatchOctet (b : N)
| IMatchSet (s : rune_set)
| IMatchClass (k : class_kind) (penum mask : N)
| IMatch (s : list N)
| IMatchCf (s : list N)
| IConditionTest (nm : name) (v : bool)
| IConditionPush (nm : name) (v : bool)
| ISymbolExists (nm : name) (v : bool)
| ISymbolMatch (k : symk) (cf : bool) (nm : name) (idx : N)
| ISymbolStart (nm : name)
| ISymbolPush (kind : N) (nm : name)
| IRaise (label : name) (flag : bool).

(* template instructions: calls are symbolic until Link resolves them *)
Inductive tinstr :=
| TI (i : sinstr)
| TCall (rule : nat) (prec : N) (mode : N)      (* call; mode = encoder mode at the call (for left-recursion detection) *)
| TRecRule (rule : nat) (mode : N).             (* recover_push targeting a rule *)

Definition len {A} (l : list A) : Z := Z.of_nat (length l).
Arguments len : simpl never.
