(* Model of lug's parsing machine (basic_parser::parse and its helpers in lug.hpp).
   One Gallina function per C++ helper.  Failure is made an explicit mode of the machine state
   ([fmode] = number of backtrack points still to be taken) so that one step of the model is either one
   instruction or the popping of one frame; everything else follows the C++ line by line.
   No proofs in this file. *)
From Coq Require Import NArith ZArith List Bool.
From Lug Require Import Gen.Consts Gen.UcdTables Utf8.Utf8Model Ucd.Lookup Ucd.RuneSet VM.Instr Lang.Elab.
Import ListNotations.
Local Open Scope N_scope.

(* ------------------------------------------------------------------ data *)

Inductive rkind := RAct (idx : N) | RCap (idx : N) (start size : N).
Record response := { r_depth : N; r_kind : rkind }.

Definition symtab := list (name * list (list N)).

Inductive frame :=
| FBack (fsr : option N) (frc : N) (frid : N) (frinh : bool) (fpc : Z)   (* fsr = None: tombstoned by a drain *)
| FCall (fpc : Z)
| FCapture (fsr : N)
| FCond (nm : name) (old : bool)
| FLr (srr : N) (sra : option N) (prec : N) (pcr pca : Z) (rcr : N) (saved : list response)
| FRaise (label : name) (fsr frc : N) (feh : option (N * N)) (fpc : Z)
| FRecover (frh : option Z)
| FReport (feh : option (N * N))
| FSymbol (nm : name) (fsr : N)
| FSymtab (tbl : symtab).

Inductive event :=
| EvAction (id depth : N)
| EvCapture (id depth start size : N) (text : list N)
| EvPred (p : N * N) (sr : N)
| EvHandler (h : N * N) (label : name) (index size incoming : N)
| EvDrain (n : N)
| EvPoll (bufsize : N).

Record mstate := {
  pc : Z; sr : N; mr : N; rc : N; cd : N;
  cic : N; cutf : bool; accf : bool;           (* ci register: count + two flag bits *)
  rid : N; rinh : bool;                         (* ri register: frame depth + inhibited flag *)
  eh : option (N * N); rh : option Z; rr : N;
  frames : list frame;                          (* head = top of stack *)
  resp : list response;                         (* in push order *)
  buf : list N;                                 (* bytes buffered and not yet released *)
  pending : list (list N); alive : bool; interactive : bool;   (* a push_source that delivers [pending] chunk by chunk *)
  conds : list name; syms : symtab;
  foldcache : list (N * (N * list N));
  success : bool;
  fmode : N;                                    (* > 0: failing, that many backtrack points to go *)
  log : list event                              (* newest first *)
}.

Inductive stuck := BadStack | BadVariant | BadOpcode | Terminate | OutOfRange | BadIndex.
Inductive result := Running (s : mstate) | Done (ok : bool) (s : mstate) | Stuck (why : stuck) (s : mstate).

(* user callbacks: parameters of the machine *)
Record callbacks := {
  cb_pred : N * N -> N -> bool;                         (* predicate identity, size of match() *)
  cb_handler : N * N -> name -> N -> N -> N -> N        (* handler identity, label, index, size, incoming response -> response *)
}.

(* ------------------------------------------------------------------ record updates *)
Definition upd_pc v s := {| pc := v; sr := sr s; mr := mr s; rc := rc s; cd := cd s; cic := cic s; cutf := cutf s; accf := accf s; rid := rid s; rinh := rinh s; eh := eh s; rh := rh s; rr := rr s; frames := frames s; resp := resp s; buf := buf s; pending := pending s; alive := alive s; interactive := interactive s; conds := conds s; syms := syms s; foldcache := foldcache s; success := success s; fmode := fmode s; log := log s |}.
Definition upd_sr v s := {| pc := pc s; sr := v; mr := mr s; rc := rc s; cd := cd s; cic := cic s; cutf := cutf s; accf := accf s; rid := rid s; rinh := rinh s; eh := eh s; rh := rh s; rr := rr s; frames := frames s; resp := resp s; buf := buf s; pending := pending s; alive := alive s; interactive := interactive s; conds := conds s; syms := syms s; foldcache := foldcache s; success := success s; fmode := fmode s; log := log s |}.
Definition upd_mr v s := {| pc := pc s; sr := sr s; mr := v; rc := rc s; cd := cd s; cic := cic s; cutf := cutf s; accf := accf s; rid := rid s; rinh := rinh s; eh := eh s; rh := rh s; rr := rr s; frames := frames s; resp := resp s; buf := buf s; pending := pending s; alive := alive s; interactive := interactive s; conds := conds s; syms := syms s; foldcache := foldcache s; success := success s; fmode := fmode s; log := log s |}.
Definition upd_rc v s := {| pc := pc s; sr := sr s; mr := mr s; rc := v; cd := cd s; cic := cic s; cutf := cutf s; accf := accf s; rid := rid s; rinh := rinh s; eh := eh s; rh := rh s; rr := rr s; frames := frames s; resp := resp s; buf := buf s; pending := pending s; alive := alive s; interactive := interactive s; conds := conds s; syms := syms s; foldcache := foldcache s; success := success s; fmode := fmode s; log := log s |}.
Definition upd_cd v s := {| pc := pc s; sr := sr s; mr := mr s; rc := rc s; cd := v; cic := cic s; cutf := cutf s; accf := accf s; rid := rid s; rinh := rinh s; eh := eh s; rh := rh s; rr := rr s; frames := frames s; resp := resp s; buf := buf s; pending := pending s; alive := alive s; interactive := interactive s; conds := conds s; syms := syms s; foldcache := foldcache s; success := success s; fmode := fmode s; log := log s |}.
Definition upd_ci c cu ac s := {| pc := pc s; sr := sr s; mr := mr s; rc := rc s; cd := cd s; cic := c; cutf := cu; accf := ac; rid := rid s; rinh := rinh s; eh := eh s; rh := rh s; rr := rr s; frames := frames s; resp := resp s; buf := buf s; pending := pending s; alive := alive s; interactive := interactive s; conds := conds s; syms := syms s; foldcache := foldcache s; success := success s; fmode := fmode s; log := log s |}.
Definition upd_ri d i s := {| pc := pc s; sr := sr s; mr := mr s; rc := rc s; cd := cd s; cic := cic s; cutf := cutf s; accf := accf s; rid := d; rinh := i; eh := eh s; rh := rh s; rr := rr s; frames := frames s; resp := resp s; buf := buf s; pending := pending s; alive := alive s; interactive := interactive s; conds := conds s; syms := syms s; foldcache := foldcache s; success := success s; fmode := fmode s; log := log s |}.
Definition upd_eh v s := {| pc := pc s; sr := sr s; mr := mr s; rc := rc s; cd := cd s; cic := cic s; cutf := cutf s; accf := accf s; rid := rid s; rinh := rinh s; eh := v; rh := rh s; rr := rr s; frames := frames s; resp := resp s; buf := buf s; pending := pending s; alive := alive s; interactive := interactive s; conds := conds s; syms := syms s; foldcache := foldcache s; success := success s; fmode := fmode s; log := log s |}.
Definition upd_rh v s := {| pc := pc s; sr := sr s; mr := mr s; rc := rc s; cd := cd s; cic := cic s; cutf := cutf s; accf := accf s; rid := rid s; rinh := rinh s; eh := eh s; rh := v; rr := rr s; frames := frames s; resp := resp s; buf := buf s; pending := pending s; alive := alive s; interactive := interactive s; conds := conds s; syms := syms s; foldcache := foldcache s; success := success s; fmode := fmode s; log := log s |}.
Definition upd_rr v s := {| pc := pc s; sr := sr s; mr := mr s; rc := rc s; cd := cd s; cic := cic s; cutf := cutf s; accf := accf s; rid := rid s; rinh := rinh s; eh := eh s; rh := rh s; rr := v; frames := frames s; resp := resp s; buf := buf s; pending := pending s; alive := alive s; interactive := interactive s; conds := conds s; syms := syms s; foldcache := foldcache s; success := success s; fmode := fmode s; log := log s |}.
Definition upd_frames v s := {| pc := pc s; sr := sr s; mr := mr s; rc := rc s; cd := cd s; cic := cic s; cutf := cutf s; accf := accf s; rid := rid s; rinh := rinh s; eh := eh s; rh := rh s; rr := rr s; frames := v; resp := resp s; buf := buf s; pending := pending s; alive := alive s; interactive := interactive s; conds := conds s; syms := syms s; foldcache := foldcache s; success := success s; fmode := fmode s; log := log s |}.
Definition upd_resp v s := {| pc := pc s; sr := sr s; mr := mr s; rc := rc s; cd := cd s; cic := cic s; cutf := cutf s; accf := accf s; rid := rid s; rinh := rinh s; eh := eh s; rh := rh s; rr := rr s; frames := frames s; resp := v; buf := buf s; pending := pending s; alive := alive s; interactive := interactive s; conds := conds s; syms := syms s; foldcache := foldcache s; success := success s; fmode := fmode s; log := log s |}.
Definition upd_src b p a s := {| pc := pc s; sr := sr s; mr := mr s; rc := rc s; cd := cd s; cic := cic s; cutf := cutf s; accf := accf s; rid := rid s; rinh := rinh s; eh := eh s; rh := rh s; rr := rr s; frames := frames s; resp := resp s; buf := b; pending := p; alive := a; interactive := interactive s; conds := conds s; syms := syms s; foldcache := foldcache s; success := success s; fmode := fmode s; log := log s |}.
Definition upd_conds v s := {| pc := pc s; sr := sr s; mr := mr s; rc := rc s; cd := cd s; cic := cic s; cutf := cutf s; accf := accf s; rid := rid s; rinh := rinh s; eh := eh s; rh := rh s; rr := rr s; frames := frames s; resp := resp s; buf := buf s; pending := pending s; alive := alive s; interactive := interactive s; conds := v; syms := syms s; foldcache := foldcache s; success := success s; fmode := fmode s; log := log s |}.
Definition upd_syms v s := {| pc := pc s; sr := sr s; mr := mr s; rc := rc s; cd := cd s; cic := cic s; cutf := cutf s; accf := accf s; rid := rid s; rinh := rinh s; eh := eh s; rh := rh s; rr := rr s; frames := frames s; resp := resp s; buf := buf s; pending := pending s; alive := alive s; interactive := interactive s; conds := conds s; syms := v; foldcache := foldcache s; success := success s; fmode := fmode s; log := log s |}.
Definition upd_cache v s := {| pc := pc s; sr := sr s; mr := mr s; rc := rc s; cd := cd s; cic := cic s; cutf := cutf s; accf := accf s; rid := rid s; rinh := rinh s; eh := eh s; rh := rh s; rr := rr s; frames := frames s; resp := resp s; buf := buf s; pending := pending s; alive := alive s; interactive := interactive s; conds := conds s; syms := syms s; foldcache := v; success := success s; fmode := fmode s; log := log s |}.
Definition upd_success v s := {| pc := pc s; sr := sr s; mr := mr s; rc := rc s; cd := cd s; cic := cic s; cutf := cutf s; accf := accf s; rid := rid s; rinh := rinh s; eh := eh s; rh := rh s; rr := rr s; frames := frames s; resp := resp s; buf := buf s; pending := pending s; alive := alive s; interactive := interactive s; conds := conds s; syms := syms s; foldcache := foldcache s; success := v; fmode := fmode s; log := log s |}.
Definition upd_fmode v s := {| pc := pc s; sr := sr s; mr := mr s; rc := rc s; cd := cd s; cic := cic s; cutf := cutf s; accf := accf s; rid := rid s; rinh := rinh s; eh := eh s; rh := rh s; rr := rr s; frames := frames s; resp := resp s; buf := buf s; pending := pending s; alive := alive s; interactive := interactive s; conds := conds s; syms := syms s; foldcache := foldcache s; success := success s; fmode := v; log := log s |}.
Definition add_log e s := {| pc := pc s; sr := sr s; mr := mr s; rc := rc s; cd := cd s; cic := cic s; cutf := cutf s; accf := accf s; rid := rid s; rinh := rinh s; eh := eh s; rh := rh s; rr := rr s; frames := frames s; resp := resp s; buf := buf s; pending := pending s; alive := alive s; interactive := interactive s; conds := conds s; syms := syms s; foldcache := foldcache s; success := success s; fmode := fmode s; log := e :: log s |}.

Definition lenN {A} (l : list A) : N := N.of_nat (length l).
Definition firstnN {A} (n : N) (l : list A) : list A := firstn (N.to_nat n) l.
Definition skipnN {A} (n : N) (l : list A) : list A := skipn (N.to_nat n) l.

(* ------------------------------------------------------------------ names, conditions, symbols *)
Fixpoint name_eqb (a b : name) : bool :=
  match a, b with
  | [], [] => true
  | x :: a', y :: b' => (x =? y) && name_eqb a' b'
  | _, _ => false
  end.
(* the condition set (std::unordered_set in the library) is kept as a strictly sorted list of names, so
   that equal sets are equal values *)
Fixpoint name_ltb (a b : name) : bool :=
  match a, b with
  | [], [] => false
  | [], _ :: _ => true
  | _ :: _, [] => false
  | x :: a', y :: b' => (x <? y) || ((x =? y) && name_ltb a' b')
  end.
Definition has_cond (c : list name) (nm : name) : bool := existsb (name_eqb nm) c.
Definition remove_cond (c : list name) (nm : name) : list name := filter (fun x => negb (name_eqb nm x)) c.
Fixpoint insert_cond (c : list name) (nm : name) : list name :=
  match c with
  | [] => [nm]
  | x :: r => if name_eqb nm x then c else if name_ltb nm x then nm :: c else x :: insert_cond r nm
  end.
(* environment::set_condition *)
Definition set_cond (c : list name) (nm : name) (v : bool) : list name :=
  if v then insert_cond c nm else remove_cond c nm.

Fixpoint get_symbols (t : symtab) (nm : name) : list (list N) :=
  match t with [] => [] | (k, v) :: r => if name_eqb k nm then v else get_symbols r nm end.
Fixpoint has_symbol (t : symtab) (nm : name) : bool :=
  match t with [] => false | (k, _) :: r => name_eqb k nm || has_symbol r nm end.
Fixpoint add_symbol (t : symtab) (nm : name) (v : list N) : symtab :=
  match t with
  | [] => [(nm, [v])]
  | (k, vs) :: r => if name_eqb k nm then (k, vs ++ [v]) :: r else (k, vs) :: add_symbol r nm v
  end.
Definition erase_symbol (t : symtab) (nm : name) : symtab := filter (fun kv => negb (name_eqb (fst kv) nm)) t.

(* ------------------------------------------------------------------ the input source *)
(* one call of the source function: delivers the next chunk, or reports exhaustion (and is popped) *)
Definition poll (s : mstate) : mstate :=
  match pending s with
  | c :: r => add_log (EvPoll (lenN (buf s))) (upd_src (buf s ++ c) r (alive s) s)
  | [] => add_log (EvPoll (lenN (buf s))) (upd_src (buf s) [] false s)
  end.

(* multi_input_source::fill_buffer(required, desired) -- fuel bounds the number of source calls *)
Fixpoint fill_loop (fuel : nat) (desired_size : N) (s : mstate) : mstate :=
  match fuel with
  | O => s
  | S f => if alive s && (lenN (buf s) <? desired_size) then fill_loop f desired_size (poll s) else s
  end.
Definition fill_buffer (required desired : N) (s : mstate) : bool * mstate :=
  if negb (alive s) then (false, s)
  else
    let required_size := lenN (buf s) + required in
    let desired_size := lenN (buf s) + desired in
    let s' := fill_loop (S (length (pending s))) desired_size s in
    (required_size <=? lenN (buf s'), s').

(* basic_parser::available(sr, nrequired, ndesired) *)
Fixpoint available_loop (fuel : nat) (i nreq nmax : N) (s : mstate) : bool * mstate :=
  let size := lenN (buf s) in
  let remaining := size - i in                 (* i <= size on every path the compiled programs can take *)
  if (i <? size) && (nmax <=? remaining) then (true, s)
  else if (i <? size) && interactive s then (nreq <=? remaining, s)     (* an interactive source is not asked while unread input remains *)
  else if (i <? size) && (nreq <=? remaining)
  then (true, snd (fill_buffer 0 (nmax - remaining) s))               (* enough to go on: top up to the desired amount if the source has it *)
  else match fuel with
       | O => (false, s)
       | S f => let '(ok, s') := fill_buffer (nreq - remaining) (nmax - remaining) s in
                if ok then available_loop f i nreq nmax s' else (false, s')
       end.
Definition available (i nreq ndes : N) (s : mstate) : bool * mstate :=
  available_loop (S (S (length (pending s)))) i nreq (N.max nreq ndes) s.

Definition subject_from (i : N) (s : mstate) : list N := skipnN i (buf s).

(* ------------------------------------------------------------------ matchers: (failed?, state) *)
Definition m_any (flags : N) (s : mstate) : bool * mstate :=
  if negb (flags =? 0) && interactive s then (true, s)
  else let '(ok, s1) := available (sr s) 1 max_rune_units s in
       if ok then match subject_from (sr s1) s1 with
                  | _ :: rest => (false, upd_sr (sr s1 + 1 + N.of_nat (skip_trail_w rest)) s1)
                  | [] => (true, s1)
                  end
       else (true, s1).

Definition utf8_match_eol (l : list N) : N :=
  match l with
  | c1 :: t =>
      if (10 <=? c1) && (c1 <=? 12) then 1
      else if c1 =? 13 then match t with 10 :: _ => 2 | _ => 1 end
      else if c1 =? 194 then match t with 133 :: _ => 2 | _ => 0 end
      else if c1 =? 226 then match t with 128 :: c3 :: _ => if (c3 =? 168) || (c3 =? 169) then 3 else 0 | _ => 0 end
      else 0
  | [] => 0
  end.

Definition m_eol (s : mstate) : bool * mstate :=
  let '(ok, s1) := available (sr s) 1 max_eol_units s in
  if ok then let n := utf8_match_eol (subject_from (sr s1) s1) in
             if n =? 0 then (true, s1) else (false, upd_sr (sr s1 + n) s1)
  else (true, s1).

Definition m_octet (b : N) (s : mstate) : bool * mstate :=
  let '(ok, s1) := available (sr s) 1 0 s in
  if ok then match subject_from (sr s1) s1 with
             | c :: _ => if c =? b then (false, upd_sr (sr s1 + 1) s1) else (true, s1)
             | [] => (true, s1)
             end
  else (true, s1).

(* match_rune: decode one rune from what is buffered and test it *)
Definition m_rune (ucd : ucd_table) (test : N -> option bool) (s : mstate) : result + (bool * mstate) :=
  let '(ok, s1) := available (sr s) 1 max_rune_units s in
  if ok then
    let '(n, rune) := decode_rune_w (subject_from (sr s1) s1) in
    match n with
    | O => inr (true, s1)
    | _ => match test rune with
           | Some true => inr (false, upd_sr (sr s1 + N.of_nat n) s1)
           | Some false => inr (true, s1)
           | None => inl (Stuck BadIndex s1)
           end
    end
  else inr (true, s1).

Definition class_test (ucd : ucd_table) (k : class_kind) (penum mask : N) (rune : N) : option bool :=
  match query ucd rune with
  | Some rec => Some (match k with CkAll => rec_all_of rec penum mask | CkAny => rec_any_of rec penum mask | CkNone => rec_none_of rec penum mask end)
  | None => None
  end.

Fixpoint list_eqb (a b : list N) : bool :=
  match a, b with [], [] => true | x :: a', y :: b' => (x =? y) && list_eqb a' b' | _, _ => false end.

(* compare(sr, sn, str): buffer.compare(sr, sn, str) == 0 *)
Definition compare_at (i n : N) (str : list N) (s : mstate) : bool := list_eqb (firstnN n (subject_from i s)) str.

Fixpoint cache_get (c : list (N * (N * list N))) (k : N) : option (N * list N) :=
  match c with [] => None | (k', v) :: r => if k' =? k then Some v else cache_get r k end.
Definition cache_set (c : list (N * (N * list N))) (k : N) (v : N * list N) : list (N * (N * list N)) :=
  (k, v) :: filter (fun kv => negb (fst kv =? k)) c.

(* casefold_compare(sr, sn, str) with its per-offset cache: an entry is (number of input bytes folded, their folding) *)
Definition casefold_compare_at (ucd : ucd_table) (i n : N) (str : list N) (s : mstate) : option (bool * mstate) :=
  let cached := match cache_get (foldcache s) i with Some v => v | None => (0, []) end in
  if fst cached <? n then
    match utf8_tocasefold ucd (firstnN n (subject_from i s)) with
    | Some f => Some (list_eqb (firstnN n f) str, upd_cache (cache_set (foldcache s) i (n, f)) s)
    | None => None
    end
  else Some (list_eqb (firstnN n (snd cached)) str, match cache_get (foldcache s) i with Some _ => s | None => upd_cache (cache_set (foldcache s) i (0, [])) s end).

(* match_sequence(sr, str, comp): works on an explicit subject index [i] so that the symbol matchers can chain *)
Definition m_seq_at (ucd : ucd_table) (cf : bool) (str : list N) (i : N) (s : mstate) : result + (option N * mstate) :=
  let n := lenN str in
  if n =? 0 then inr (Some i, s)
  else let '(ok, s1) := available i n 0 s in
       if ok then
         if cf then match casefold_compare_at ucd i n str s1 with
                    | Some (true, s2) => inr (Some (i + n), s2)
                    | Some (false, s2) => inr (None, s2)
                    | None => inl (Stuck BadIndex s1)
                    end
         else if compare_at i n str s1 then inr (Some (i + n), s1) else inr (None, s1)
       else inr (None, s1).

Definition m_seq (ucd : ucd_table) (cf : bool) (str : list N) (s : mstate) : result + (bool * mstate) :=
  match m_seq_at ucd cf str (sr s) s with
  | inl r => inl r
  | inr (Some j, s1) => inr (false, upd_sr j s1)
  | inr (None, s1) => inr (true, s1)
  end.

Definition sym_mod (ucd : ucd_table) (cf : bool) (v : list N) : option (list N) :=
  if cf then utf8_tocasefold ucd v else Some v.

(* match_symbol_all: every definition in order, each starting where the previous one ended *)
Fixpoint m_sym_all (ucd : ucd_table) (cf : bool) (vals : list (list N)) (i : N) (s : mstate) : result + (option N * mstate) :=
  match vals with
  | [] => inr (Some i, s)
  | v :: rest =>
      match sym_mod ucd cf v with
      | None => inl (Stuck BadIndex s)
      | Some v' =>
        match m_seq_at ucd cf v' i s with
        | inl r => inl r
        | inr (Some j, s1) => m_sym_all ucd cf rest j s1
        | inr (None, s1) => inr (None, s1)
        end
      end
  end.

(* match_symbol_any: the first definition that matches at sr *)
Fixpoint m_sym_any (ucd : ucd_table) (cf : bool) (vals : list (list N)) (i : N) (s : mstate) : result + (option N * mstate) :=
  match vals with
  | [] => inr (None, s)
  | v :: rest =>
      match sym_mod ucd cf v with
      | None => inl (Stuck BadIndex s)
      | Some v' =>
        match m_seq_at ucd cf v' i s with
        | inl r => inl r
        | inr (Some j, s1) => inr (Some j, s1)
        | inr (None, s1) => m_sym_any ucd cf rest i s1
        end
      end
  end.

Definition m_symbol (ucd : ucd_table) (k : symk) (cf : bool) (nm : name) (idx : N) (s : mstate) : result + (bool * mstate) :=
  let vals := get_symbols (syms s) nm in
  let r :=
    match k with
    | SkAll => m_sym_all ucd cf vals (sr s) s
    | SkAny => m_sym_any ucd cf vals (sr s) s
    | SkHead => match nth_error vals (N.to_nat idx) with
                | Some v => match sym_mod ucd cf v with Some v' => m_seq_at ucd cf v' (sr s) s | None => inl (Stuck BadIndex s) end
                | None => inr (None, s)
                end
    | SkTail => if idx <? lenN vals
                then match nth_error vals (N.to_nat (lenN vals - idx - 1)) with
                     | Some v => match sym_mod ucd cf v with Some v' => m_seq_at ucd cf v' (sr s) s | None => inl (Stuck BadIndex s) end
                     | None => inr (None, s)
                     end
                else inr (None, s)
    end in
  match r with
  | inl x => inl x
  | inr (Some j, s1) => inr (false, upd_sr j s1)
  | inr (None, s1) => inr (true, s1)
  end.

(* ------------------------------------------------------------------ responses *)
Definition pop_responses_after (n : N) (s : mstate) : mstate :=
  if n <? lenN (resp s) then upd_resp (firstnN n (resp s)) s else s.
Definition restore_responses_after (n : N) (saved : list response) (s : mstate) : mstate :=
  let s1 := pop_responses_after n s in
  let r := resp s1 ++ saved in
  upd_rc (lenN r) (upd_resp r s1).
Definition push_response (r : response) (s : mstate) : mstate :=
  let l := resp s ++ [r] in upd_rc (lenN l) (upd_resp l s).

(* ------------------------------------------------------------------ accept / drain *)
(* do_accept(match): run every pending response in order; capture text is cut out of match() *)
Fixpoint run_responses (m : list N) (rs : list response) (s : mstate) : bool * mstate :=
  match rs with
  | [] => (true, s)
  | r :: rest =>
      match r_kind r with
      | RAct id => run_responses m rest (add_log (EvAction id (r_depth r)) s)
      | RCap id start size =>
          if lenN m <? start then (false, s)                             (* string_view::substr throws std::out_of_range *)
          else let text := firstnN size (skipnN start m) in
               run_responses m rest (add_log (EvCapture id (r_depth r) start (lenN text) text) s)
      end
  end.

Definition do_accept (s : mstate) : result :=
  let m := firstnN (sr s) (buf s) in
  let '(ok, s1) := run_responses m (resp s) s in
  if ok then Running (upd_rc 0 (upd_resp [] s1)) else Stuck OutOfRange (upd_rc 0 (upd_resp [] s1)).

(* do_drain: a backtrack frame older than the released text can never be resumed; one pushed at (or after) the
   drain point is re-based to the released text and has no pending responses any more *)
Definition tombstone (cur : N) (f : frame) : frame :=
  match f with
  | FBack (Some x) c d i p => if x <? cur then FBack None c d i p else FBack (Some (x - cur)) 0 d i p
  | _ => f
  end.

(* drain(): release the consumed prefix *)
Definition drain (s : mstate) : mstate :=
  if 0 <? sr s then
    let n := sr s in
    let s1 := upd_src (skipnN n (buf s)) (pending s) (alive s) s in
    let s2 := upd_frames (map (tombstone n) (frames s1)) s1 in
    let s3 := upd_mr (mr s2 - n) s2 in
    let s4 := upd_rc 0 (upd_sr 0 s3) in
    let s5 := upd_ri (rid s4) false (upd_ci (cic s4) false false s4) in
    add_log (EvDrain n) (upd_resp [] (upd_cache [] s5))
  else s.

(* match()/subject() are noexcept and call substr(sr, ..): sr beyond the buffer terminates the process *)
Definition subject_ok (s : mstate) : bool := sr s <=? lenN (buf s).

Definition accept_or_drain_if_deferred (s : mstate) : result :=
  if cic s =? 0 then
    if cutf s || accf s then
      let should_cut := cutf s in
      let should_accept := accf s in
      let s1 := upd_ci 0 false false s in
      let s2 := upd_mr (N.max (mr s1) (sr s1)) s1 in
      if negb (subject_ok s2) then Stuck Terminate s2 else
      let r := if (should_cut && success s2) || should_accept then do_accept s2 else Running s2 in
      match r with
      | Running s3 => Running (if should_cut then drain s3 else s3)
      | other => other
      end
    else Running s
  else Running s.

(* accept() at the end of a successful parse *)
Definition final_accept (s : mstate) : result :=
  let s1 := upd_mr (N.max (mr s) (sr s)) s in
  if negb (subject_ok s1) then Stuck Terminate s1 else do_accept s1.

(* ------------------------------------------------------------------ raise / recovery *)
Definition is_ws (b : N) : bool := (b =? 32) || ((9 <=? b) && (b <=? 13)).
Fixpoint find_ws (l : list N) : option nat :=
  match l with [] => None | b :: r => if is_ws b then Some O else match find_ws r with Some n => Some (S n) | None => None end end.

(* match_default_recovery: skip to the next ASCII white-space byte, pulling in more input as needed *)
Fixpoint default_recovery_loop (fuel : nat) (i : N) (s : mstate) : N * mstate :=
  match find_ws (subject_from i s) with
  | Some n => (i + N.of_nat n, s)
  | None =>
      let i' := lenN (buf s) in
      match fuel with
      | O => (i', s)
      | S f => let '(ok, s1) := available i' 1 0 s in if ok then default_recovery_loop f i' s1 else (i', s1)
      end
  end.
Definition match_default_recovery (s : mstate) : mstate :=
  let '(ok, s1) := available (sr s) 1 0 s in
  if ok then let '(i, s2) := default_recovery_loop (S (S (length (pending s1)))) (sr s1) s1 in
             if sr s2 <? i then upd_sr i s2 else s2
  else s1.

Definition RESUME := Gen.Consts.resp_resume.
Definition ACCEPT := Gen.Consts.resp_accept.
Definition BACKTRACK := Gen.Consts.resp_backtrack.
Definition RETHROW := Gen.Consts.resp_rethrow.
Definition HALT := Gen.Consts.resp_halt.

(* the next report frame strictly below the given frames' head *)
Fixpoint next_report (fs : list frame) : option (option (N * N) * list frame) :=
  match fs with
  | [] => None
  | FReport h :: rest => Some (h, rest)
  | _ :: rest => next_report rest
  end.

(* do_return_from_raise: the handler chain.  [below] = frames under the one last consulted. *)
Fixpoint handler_chain (cb : callbacks) (fuel : nat) (h : option (N * N)) (below : list frame)
         (label : name) (index size incoming : N) (s : mstate) : N * mstate :=
  match h with
  | None => (incoming, s)           (* only reached on the first iteration: no handler installed -> recovery response *)
  | Some hid =>
      let ret := cb_handler cb hid label index size incoming in
      let s1 := add_log (EvHandler hid label index size incoming) s in
      if ret =? RETHROW then
        match fuel with
        | O => (HALT, s1)
        | S f => match next_report below with
                 | Some (Some h', rest) => handler_chain cb f (Some h') rest label index size incoming s1
                 | Some (None, _) => (HALT, s1)
                 | None => (HALT, s1)
                 end
        end
      else (ret, s1)
  end.

(* return_from_raise(frame): called with the raise frame still on the stack (it is [frames s]'s head) *)
Definition return_from_raise (cb : callbacks) (label : name) (fsr frc : N) (feh : option (N * N)) (fpc : Z) (s : mstate) : result + (N * mstate) :=
  let rec_res0 := rr s in
  let s0 := upd_rr RESUME s in
  let '(rec_res, s1) :=
    if Z.eqb (pc s0) fpc
    then (HALT, match_default_recovery (upd_sr fsr s0))
    else (rec_res0, s0) in
  let s2 := upd_mr (N.max (mr s1) (sr s1)) s1 in
  if negb (subject_ok s2) then inl (Stuck Terminate s2) else
  let sr0 := fsr in
  let sr1 := sr s2 in
  let size := if sr0 <? sr1 then sr1 - sr0 else lenN (buf s2) - sr1 in
  let '(err, s3) := handler_chain cb (length (frames s2)) feh (tl (frames s2)) label sr0 size rec_res s2 in
  let s4 := upd_ci (cic s3 - 1) (cutf s3) (accf s3) (upd_cd (cd s3 - 1) s3) in
  if BACKTRACK <=? err then inr (err, upd_rc frc (upd_sr fsr s4))
  else inr (err, upd_pc fpc s4).

(* ------------------------------------------------------------------ failure *)
(* fail_one: pops one frame; the answer is one of halt/resume/accept/backtrack/rethrow *)
Definition fail_one (cb : callbacks) (s : mstate) : result + (N * mstate) :=
  match frames s with
  | [] => inr (HALT, s)
  | f :: rest =>
      match f with
      | FBack None _ _ _ _ => inr (BACKTRACK, upd_frames rest s)
      | FBack (Some x) c d i p => inr (ACCEPT, upd_frames rest (upd_pc p (upd_ri d i (upd_rc c (upd_sr x s)))))
      | FCall _ => inr (BACKTRACK, upd_frames rest (upd_cd (cd s - 1) s))
      | FCapture _ => inr (BACKTRACK, upd_frames rest (upd_ci (cic s - 1) (cutf s) (accf s) s))
      | FCond nm old => inr (BACKTRACK, upd_frames rest (upd_conds (set_cond (conds s) nm old) s))
      | FLr srr sra prec pcr pca rcr saved =>
          let s1 := upd_ci (cic s - 1) (cutf s) (accf s) (upd_cd (cd s - 1) s) in
          match sra with
          | None => inr (BACKTRACK, upd_frames rest s1)
          | Some a => inr (ACCEPT, upd_frames rest (upd_pc pcr (restore_responses_after rcr saved (upd_sr a s1))))
          end
      | FRaise label x c h p =>
          match return_from_raise cb label x c h p (upd_pc p (upd_rc c (upd_sr x s))) with
          | inl r => inl r
          | inr (e, s1) => inr (e, upd_frames (tl (frames s1)) s1)
          end
      | FRecover h => inr (BACKTRACK, upd_frames rest (upd_rh h s))
      | FReport h => inr (BACKTRACK, upd_frames rest (upd_eh h s))
      | FSymbol _ _ => inr (BACKTRACK, upd_frames rest s)
      | FSymtab t => inr (BACKTRACK, upd_frames rest (upd_syms t s))
      end
  end.

(* an instruction asked for [n] failures: fail(n) starts by raising mr *)
Definition start_fail (n : N) (s : mstate) : result :=
  Running (upd_fmode n (upd_mr (N.max (mr s) (sr s)) s)).

(* unwind(k): k frames, no counting (inhibited raise) *)
Fixpoint unwind (cb : callbacks) (k : nat) (s : mstate) : result :=
  match k with
  | O => Running s
  | S k' =>
      match fail_one cb s with
      | inl r => r
      | inr (e, s1) =>
          if e =? HALT then Done false s1
          else unwind cb k' (if e <? ACCEPT then upd_success false s1 else s1)
      end
  end.

(* one step of the failure mode *)
Definition fail_step (cb : callbacks) (s : mstate) : result :=
  match fail_one cb s with
  | inl r => r
  | inr (e, s1) =>
      if BACKTRACK <=? e then Running s1
      else if e =? HALT then Done false s1
      else
        let s2 := if e <? ACCEPT then upd_success false s1 else s1 in
        let n := fmode s2 - 1 in
        if n =? 0
        then accept_or_drain_if_deferred (pop_responses_after (rc s2) (upd_fmode 0 s2))
        else Running (upd_fmode n s2)
  end.

(* ------------------------------------------------------------------ calls *)
Inductive lrsearch := LrFound (f : frame) | LrNone.
Fixpoint find_memo (fs : list frame) (srr : N) (pca : Z) : lrsearch :=
  match fs with
  | [] => LrNone
  | (FLr srr' sra prec pcr pca' rcr saved as f) :: rest =>
      if (srr' =? srr) && Z.eqb pca' pca then LrFound f
      else if srr <=? srr' then LrNone
      else find_memo rest srr pca
  | _ :: rest => find_memo rest srr pca
  end.

(* call_into(prec, off): pc already points past the call *)
Definition call_into (prec : N) (off : Z) (s : mstate) : result :=
  if prec =? 0 then Running (upd_pc (pc s + off)%Z (upd_cd (cd s + 1) (upd_frames (FCall (pc s) :: frames s) s)))
  else
    let pca := (pc s + off)%Z in
    match find_memo (frames s) (sr s) pca with
    | LrFound (FLr _ sra mprec _ _ _ saved) =>
        match sra with
        | None => start_fail 1 s
        | Some a => if prec <? mprec then start_fail 1 s
                    else Running (restore_responses_after (rc s) saved (upd_sr a s))
        end
    | LrFound _ => Stuck BadVariant s
    | LrNone =>
        Running (upd_pc pca (upd_ci (cic s + 1) (cutf s) (accf s) (upd_cd (cd s + 1)
                  (upd_frames (FLr (sr s) None prec (pc s) pca (rc s) [] :: frames s) s))))
    end.

(* return_from_call *)
Definition do_ret (cb : callbacks) (s : mstate) : result :=
  match frames s with
  | [] => Stuck BadStack s
  | FCall p :: rest => Running (upd_frames rest (upd_pc p (upd_cd (cd s - 1) s)))
  | FLr srr sra prec pcr pca rcr saved :: rest =>
      if match sra with None => true | Some a => a <? sr s end then
        (* grow: record the answer and try again; the frame stays *)
        let dropped := skipnN rcr (resp s) in
        let s1 := pop_responses_after rcr s in
        Running (upd_rc rcr (upd_pc pca (upd_sr srr (upd_frames (FLr srr (Some (sr s)) prec pcr pca rcr dropped :: rest) s1))))
      else
        let a := match sra with Some a => a | None => 0 end in
        let s1 := upd_ci (cic s - 1) (cutf s) (accf s) (upd_cd (cd s - 1) s) in
        let s2 := restore_responses_after rcr saved (upd_pc pcr (upd_sr a s1)) in
        accept_or_drain_if_deferred (upd_frames rest s2)
  | FRaise label x c h p :: rest =>
      match return_from_raise cb label x c h p s with
      | inl r => r
      | inr (e, s1) =>
          let s2 := if e =? RETHROW then s1 else upd_frames (tl (frames s1)) s1 in
          if BACKTRACK <=? e then
            (* ret_response >= backtrack: neither halt nor < accept; fail_count = 1 *)
            start_fail 1 s2
          else
            match accept_or_drain_if_deferred s2 with
            | Running s3 =>
                if e =? HALT then Done false s3
                else Running (if e <? ACCEPT then upd_success false s3 else s3)
            | other => other
            end
      end
  | _ => Stuck BadStack s
  end.

(* ------------------------------------------------------------------ one instruction *)
Definition after_match (r : bool * mstate) : result :=
  let '(failed, s) := r in if failed then start_fail 1 s else Running s.
Definition after_match' (r : result + (bool * mstate)) : result :=
  match r with inl x => x | inr p => after_match p end.

Definition exec (ucd : ucd_table) (cb : callbacks) (i : sinstr) (s : mstate) : result :=
  match i with
  | IJump off => Running (upd_pc (pc s + off)%Z s)
  | IChoice off pred =>
      let s1 := upd_frames (FBack (Some (sr s)) (rc s) (rid s) (rinh s) (pc s + off)%Z :: frames s) s in
      Running (if pred then upd_ri (lenN (frames s1)) true s1 else s1)
  | ICommit off =>
      match frames s with
      | [] => Stuck BadStack s
      | _ :: rest => Running (upd_pc (pc s + off)%Z (upd_frames rest s))
      end
  | ICommitBack off =>
      match frames s with
      | [] => Stuck BadStack s
      | FBack x _ d i _ :: rest =>
          (* a tombstoned frame loads sr = SIZE_MAX *)
          Running (upd_pc (pc s + off)%Z (upd_frames rest (upd_ri d i (upd_sr (match x with Some v => v | None => 18446744073709551615 end) s))))
      | _ => Stuck BadVariant s
      end
  | ICommitPartial off =>
      match frames s with
      | [] => Stuck BadStack s
      | FBack _ _ d i p :: rest => Running (upd_pc (pc s + off)%Z (upd_frames (FBack (Some (sr s)) (rc s) d i p :: rest) s))
      | _ => Stuck BadVariant s
      end
  | IAccept flags =>
      accept_or_drain_if_deferred (upd_ci (cic s) (cutf s || N.testbit flags 1) (accf s || N.testbit flags 0) s)
  | ICall off prec => call_into prec off s
  | IRet => do_ret cb s
  | IFail n => if n =? 0 then Running s else start_fail n s
  | IRaise label flag =>
      let h := rh s in
      let popped :=
        if flag then match frames s with
                     | [] => inl (Stuck BadStack s)
                     | FRecover h' :: rest => inr (upd_frames rest (upd_rh h' s))
                     | _ => inl (Stuck BadVariant s)
                     end
        else inr s in
      match popped with
      | inl r => r
      | inr s1 =>
          if rinh s1 then
            match unwind cb (N.to_nat (lenN (frames s1) - rid s1)) (upd_mr (N.max (mr s1) (sr s1)) s1) with
            | Running s2 => start_fail 1 s2
            | other => other
            end
          else
            let s2 := upd_ci (cic s1 + 1) (cutf s1) (accf s1) (upd_cd (cd s1 + 1)
                        (upd_frames (FRaise label (sr s1) (rc s1) (eh s1) (pc s1) :: frames s1) s1)) in
            match h with
            | None => start_fail 1 s2
            | Some target => Running (upd_pc target (upd_rr RESUME s2))
            end
      end
  | IRecoverPush off => Running (upd_rh (Some (pc s + off)%Z) (upd_frames (FRecover (rh s) :: frames s) s))
  | IRecoverPop =>
      match frames s with
      | [] => Stuck BadStack s
      | FRecover h :: rest => Running (upd_frames rest (upd_rh h s))
      | _ => Stuck BadVariant s
      end
  | IRecoverResp r => Running (upd_rr r s)
  | IReportPush h => Running (upd_eh (Some h) (upd_frames (FReport (eh s) :: frames s) s))
  | IReportPop =>
      match frames s with
      | [] => Stuck BadStack s
      | FReport h :: rest => Running (upd_frames rest (upd_eh h s))
      | _ => Stuck BadVariant s
      end
  | IPredicate p =>
      let s1 := upd_mr (N.max (mr s) (sr s)) s in
      if negb (subject_ok s1) then Stuck Terminate s1 else
      let ok := cb_pred cb p (sr s1) in
      let s2 := pop_responses_after (rc s1) (add_log (EvPred p (sr s1)) s1) in
      if ok then Running s2 else start_fail 1 s2
  | IAction a => Running (push_response {| r_depth := cd s; r_kind := RAct a |} s)
  | ICaptureStart => Running (upd_ci (cic s + 1) (cutf s) (accf s) (upd_frames (FCapture (sr s) :: frames s) s))
  | ICaptureEnd c =>
      match frames s with
      | [] => Stuck BadStack s
      | FCapture sr0 :: rest =>
          let s1 := upd_ci (cic s - 1) (cutf s) (accf s) (upd_frames rest s) in
          if sr s1 <? sr0 then start_fail 1 s1
          else accept_or_drain_if_deferred (push_response {| r_depth := cd s1; r_kind := RCap c sr0 (sr s1 - sr0) |} s1)
      | _ => Stuck BadVariant s
      end
  | IMatch str => after_match' (m_seq ucd false str s)
  | IMatchCf str => after_match' (m_seq ucd true str s)
  | IMatchAny flags => after_match (m_any flags s)
  | IMatchEol => after_match (m_eol s)
  | IMatchOctet b => after_match (m_octet b s)
  | IMatchSet set => after_match' (m_rune ucd (fun r => Some (contains set r)) s)
  | IMatchClass k penum mask => after_match' (m_rune ucd (class_test ucd k penum mask) s)
  | IConditionTest nm v => if Bool.eqb (has_cond (conds s) nm) v then Running s else start_fail 1 s
  | IConditionPush nm v =>
      Running (upd_conds (set_cond (conds s) nm v) (upd_frames (FCond nm (has_cond (conds s) nm) :: frames s) s))
  | IConditionPop =>
      match frames s with
      | [] => Stuck BadStack s
      | FCond nm old :: rest => Running (upd_frames rest (upd_conds (set_cond (conds s) nm old) s))
      | _ => Stuck BadVariant s
      end
  | ISymbolExists nm v => if Bool.eqb (has_symbol (syms s) nm) v then Running s else start_fail 1 s
  | ISymbolMatch k cf nm idx => after_match' (m_symbol ucd k cf nm idx s)
  | ISymbolStart nm => Running (upd_frames (FSymbol nm (sr s) :: frames s) s)
  | ISymbolEnd =>
      match frames s with
      | [] => Stuck BadStack s
      | FSymbol nm sr0 :: rest =>
          let s1 := upd_frames rest s in
          if sr s1 <? sr0 then start_fail 1 s1
          else Running (upd_syms (add_symbol (syms s1) nm (firstnN (sr s1 - sr0) (skipnN sr0 (buf s1)))) s1)
      | _ => Stuck BadVariant s
      end
  | ISymbolPush kind nm =>
      let s1 := upd_frames (FSymtab (syms s) :: frames s) s in
      Running (if kind =? 1 then upd_syms (erase_symbol (syms s1) nm) s1 else if kind =? 2 then upd_syms [] s1 else s1)
  | ISymbolPop =>
      match frames s with
      | [] => Stuck BadStack s
      | FSymtab t :: rest => Running (upd_frames rest (upd_syms t s))
      | _ => Stuck BadVariant s
      end
  end.

(* ------------------------------------------------------------------ the dispatch loop *)
Definition fetch (prog : list sinstr) (a : Z) : option sinstr :=
  if (a <? 0)%Z then None else nth_error prog (Z.to_nat a).

Definition step (ucd : ucd_table) (cb : callbacks) (prog : list sinstr) (s : mstate) : result :=
  if 0 <? fmode s then fail_step cb s
  else match fetch prog (pc s) with
       | None =>
           (* running off the end: `if (!success_) return false; accept(); return true;` *)
           if success s then match final_accept s with Running s1 => Done true s1 | other => other end
           else Done false (upd_mr (N.max (mr s) (sr s)) s)
       | Some i => exec ucd cb i (upd_pc (pc s + 1)%Z s)
       end.

Fixpoint run (ucd : ucd_table) (cb : callbacks) (prog : list sinstr) (fuel : nat) (s : mstate) : result :=
  match fuel with
  | O => Running s
  | S f => match step ucd cb prog s with
           | Running s' => run ucd cb prog f s'
           | other => other
           end
  end.

(* the state do_reset() establishes, for a parser whose source holds [input] (already buffered) plus [chunks] *)
Definition init_state (input : list N) (chunks : list (list N)) (inter : bool) (conds0 : list name) (syms0 : symtab) : mstate :=
  {| pc := 0; sr := 0; mr := 0; rc := 0; cd := 0; cic := 0; cutf := false; accf := false; rid := 0; rinh := false;
     eh := None; rh := None; rr := RESUME; frames := []; resp := []; buf := input; pending := chunks;
     alive := match chunks with [] => false | _ => true end; interactive := inter; conds := conds0; syms := syms0;
     foldcache := []; success := true; fmode := 0; log := [] |}.

Definition init_state_with (input : list N) (chunks : list (list N)) (alive0 inter : bool) (conds0 : list name) (syms0 : symtab) : mstate :=
  {| pc := 0; sr := 0; mr := 0; rc := 0; cd := 0; cic := 0; cutf := false; accf := false; rid := 0; rinh := false;
     eh := None; rh := None; rr := RESUME; frames := []; resp := []; buf := input; pending := chunks;
     alive := alive0; interactive := inter; conds := conds0; syms := syms0;
     foldcache := []; success := true; fmode := 0; log := [] |}.

(* ------------------------------------------------------------------ reuse: what parse() does before the first instruction *)
(* basic_parser::reset(): release the consumed prefix of the buffer, then do_reset: every register, the
   frame stack, the responses and the fold cache are overwritten; the input source (unread bytes, pending
   chunks), the conditions and the symbol table are what the previous parse -- however it ended -- left.
   [fmode] and [log] are artefacts of the model (failure as a mode, observation log) and start afresh. *)
Definition reset_state (prev : mstate) : mstate :=
  let s0 := if 0 <? sr prev then upd_src (skipnN (sr prev) (buf prev)) (pending prev) (alive prev) prev else prev in
  let s1 := upd_success true s0 in
  let s2 := upd_sr 0 (upd_mr 0 (upd_rc 0 (upd_cd 0 (upd_ci 0 false false (upd_ri 0 false s1))))) in
  let s3 := upd_pc 0 (upd_eh None (upd_rh None (upd_rr RESUME s2))) in
  let s4 := upd_frames [] (upd_resp [] (upd_cache [] s3)) in
  {| pc := pc s4; sr := sr s4; mr := mr s4; rc := rc s4; cd := cd s4; cic := cic s4; cutf := cutf s4; accf := accf s4;
     rid := rid s4; rinh := rinh s4; eh := eh s4; rh := rh s4; rr := rr s4; frames := frames s4; resp := resp s4;
     buf := buf s4; pending := pending s4; alive := alive s4; interactive := interactive s4; conds := conds s4; syms := syms s4;
     foldcache := foldcache s4; success := success s4; fmode := 0; log := [] |}.

(* enqueue(first, last) on a string source appends to the buffer (string_view sources drain first: the
   harness models that by enqueueing after reset) *)
Definition enqueue (bytes : list N) (s : mstate) : mstate := upd_src (buf s ++ bytes) (pending s) (alive s) s.
