(* Executable form of Spec/PegEnv.v (oracle of the C06 conformance search). *)
From Coq Require Import NArith ZArith List Bool.
From Lug Require Import Gen.UcdTables Utf8.Utf8Model Ucd.Lookup Ucd.RuneSet VM.Instr Lang.Elab VM.Machine Spec.Peg Spec.PegEnv.
Import ListNotations.
Local Open Scope N_scope.

Section Eval.
Variable ucd : ucd_table.
Variable inp : list N.
Variable G : nat -> option pexp.

Fixpoint repE_eval (ev : N -> symtab -> option oute) (n k : nat) (i : N) (s : symtab) : option oute :=
  match n with
  | S n' =>
      match ev i s with
      | Some (SuccE j t1 f1 s1) =>
          match repE_eval ev n' k j s1 with
          | Some (SuccE j' t2 f2 s2) => Some (SuccE j' (t1 ++ t2) (N.max f1 f2) s2)
          | Some (FailE f2 s2) => Some (FailE (N.max f1 f2) s2)
          | None => None
          end
      | Some (FailE f s1) => Some (FailE f s1)
      | None => None
      end
  | O =>
      (fix opt (k : nat) (i : N) (s : symtab) : option oute :=
         match k with
         | O => Some (SuccE i [] 0 s)
         | S k' =>
             match ev i s with
             | Some (SuccE j t1 f1 s1) =>
                 match opt k' j s1 with
                 | Some (SuccE j' t2 f2 s2) => Some (SuccE j' (t1 ++ t2) (N.max f1 f2) s2)
                 | other => other
                 end
             | Some (FailE f s1) => Some (SuccE i [] f s1)
             | None => None
             end
         end) k i s
  end.

Fixpoint pegE_eval (fuel : nat) (c : list name) (p : pexp) (i : N) (s : symtab) : option oute :=
  match fuel with
  | O => None
  | S fu =>
    match p with
    | PEmpty => Some (SuccE i [] 0 s)
    | PInstr ins =>
        if is_terminal ins then
          match tmatch ucd inp ins i with Some j => Some (SuccE j [] 0 s) | None => Some (FailE i s) end
        else match ins with
             | IAction id => Some (SuccE i [TrAct id] 0 s)
             | IConditionTest nm v => if Bool.eqb (has_cond c nm) v then Some (SuccE i [] 0 s) else Some (FailE i s)
             | ISymbolExists nm v => if Bool.eqb (has_symbol s nm) v then Some (SuccE i [] 0 s) else Some (FailE i s)
             | ISymbolMatch k false nm idx =>
                 match sym_match inp k (get_symbols s nm) idx i with Some j => Some (SuccE j [] 0 s) | None => Some (FailE i s) end
             | _ => None
             end
    | PSeq a b =>
        match pegE_eval fu c a i s with
        | Some (SuccE j t1 f1 s1) =>
            match pegE_eval fu c b j s1 with
            | Some (SuccE j' t2 f2 s2) => Some (SuccE j' (t1 ++ t2) (N.max f1 f2) s2)
            | Some (FailE f2 s2) => Some (FailE (N.max f1 f2) s2)
            | None => None
            end
        | Some (FailE f1 s1) => Some (FailE f1 s1)
        | None => None
        end
    | PAlt a b =>
        match pegE_eval fu c a i s with
        | Some (SuccE j t f s1) => Some (SuccE j t f s1)
        | Some (FailE f1 s1) =>
            match pegE_eval fu c b i s1 with
            | Some (SuccE j t f2 s2) => Some (SuccE j t (N.max f1 f2) s2)
            | Some (FailE f2 s2) => Some (FailE (N.max f1 f2) s2)
            | None => None
            end
        | None => None
        end
    | PStar a =>
        match pegE_eval fu c a i s with
        | Some (SuccE j t1 f1 s1) =>
            match pegE_eval fu c (PStar a) j s1 with
            | Some (SuccE j' t2 f2 s2) => Some (SuccE j' (t1 ++ t2) (N.max f1 f2) s2)
            | _ => None
            end
        | Some (FailE f s1) => Some (SuccE i [] f s1)
        | None => None
        end
    | PNot a =>
        match pegE_eval fu c a i s with
        | Some (SuccE j t f s1) => Some (FailE (N.max f j) s1)
        | Some (FailE f s1) => Some (SuccE i [] f s1)
        | None => None
        end
    | PAnd a =>
        match pegE_eval fu c a i s with
        | Some (SuccE j t f s1) => Some (SuccE i t f s1)
        | Some (FailE f s1) => Some (FailE (N.max f i) s1)
        | None => None
        end
    | PEoi => match tmatch ucd inp (IMatchAny 1) i with None => Some (SuccE i [] i s) | Some j => Some (FailE j s) end
    | PRep n m a => repE_eval (pegE_eval fu c a) (N.to_nat n) (N.to_nat m - N.to_nat n) i s
    | PCall r _ _ => match G r with Some body => pegE_eval fu c body i s | None => None end
    | PInline _ body => pegE_eval fu c body i s
    | PSkip sp => pegE_eval fu c sp i s
    | PWrap ICaptureStart a (ICaptureEnd id) =>
        match pegE_eval fu c a i s with
        | Some (SuccE j t f s1) => Some (SuccE j (t ++ [TrCap id i (j - i)]) f s1)
        | other => other
        end
    | PWrap (IConditionPush nm v) a IConditionPop => pegE_eval fu (set_cond c nm v) a i s
    | PWrap (ISymbolStart nm) a ISymbolEnd =>
        match pegE_eval fu c a i s with
        | Some (SuccE j t f s1) => Some (SuccE j t f (add_symbol s1 nm (firstnN (j - i) (skipnN i inp))))
        | other => other
        end
    | PWrap (ISymbolPush kind nm) a ISymbolPop =>
        match pegE_eval fu c a i (scope_enter kind nm s) with
        | Some (SuccE j t f _) => Some (SuccE j t f s)
        | Some (FailE f _) => Some (FailE f s)
        | None => None
        end
    | _ => None
    end
  end.

End Eval.
