(* Reference semantics with the parse environment: the PEG fragment of Spec/Peg.v plus conditions
   (when/unless, on/off blocks) and symbol tables (symbol definitions, exists/missing, match*,
   block/local scopes).  The condition set is a parameter of the judgement: no expression changes it
   for what follows (on/off change it for their body only).  The symbol table is threaded, and an
   outcome -- success OR failure -- carries the table as the expression left it: this is what lug does
   (definitions are entered immediately; only scope blocks put the table back).  Whether that is what
   the property demands is the subject of Props/Properties_C06.v. *)
From Coq Require Import NArith ZArith List Bool.
From Lug Require Import Gen.UcdTables Utf8.Utf8Model Ucd.Lookup Ucd.RuneSet VM.Instr Lang.Elab VM.Machine Spec.Peg.
Import ListNotations.
Local Open Scope N_scope.

Inductive oute := SuccE (j : N) (t : list tr_item) (far : N) (syms : symtab) | FailE (far : N) (syms : symtab).

Section PegEnv.
Variable ucd : ucd_table.
Variable inp : list N.
Variable G : nat -> option pexp.

(* literal text at offset i (compare, not case-folded) *)
Definition lit_at (v : list N) (i : N) : option N :=
  if lenN v =? 0 then Some i
  else if (i <? lenN inp) && (lenN v <=? lenN inp - i) && list_eqb (firstnN (lenN v) (rest inp i)) v then Some (i + lenN v) else None.

Fixpoint sym_all (vals : list (list N)) (i : N) : option N :=
  match vals with [] => Some i | v :: r => match lit_at v i with Some j => sym_all r j | None => None end end.
Fixpoint sym_any (vals : list (list N)) (i : N) : option N :=
  match vals with [] => None | v :: r => match lit_at v i with Some j => Some j | None => sym_any r i end end.

(* match_all / match_any / match_front n / match_back n (match = match_back 0) against the recorded texts *)
Definition sym_match (k : symk) (vals : list (list N)) (idx : N) (i : N) : option N :=
  match k with
  | SkAll => sym_all vals i
  | SkAny => sym_any vals i
  | SkHead => match nth_error vals (N.to_nat idx) with Some v => lit_at v i | None => None end
  | SkTail => if idx <? lenN vals
              then match nth_error vals (N.to_nat (lenN vals - idx - 1)) with Some v => lit_at v i | None => None end
              else None
  end.

Definition scope_enter (kind : N) (nm : name) (syms : symtab) : symtab :=
  if kind =? 1 then erase_symbol syms nm else if kind =? 2 then [] else syms.

Inductive pegE : list name -> pexp -> N -> symtab -> oute -> Prop :=
| pe_empty c i s : pegE c PEmpty i s (SuccE i [] 0 s)
| pe_term_ok c ins i j s : is_terminal ins = true -> tmatch ucd inp ins i = Some j -> pegE c (PInstr ins) i s (SuccE j [] 0 s)
| pe_term_ko c ins i s : is_terminal ins = true -> tmatch ucd inp ins i = None -> pegE c (PInstr ins) i s (FailE i s)
| pe_action c id i s : pegE c (PInstr (IAction id)) i s (SuccE i [TrAct id] 0 s)
| pe_when_ok c nm v i s : has_cond c nm = v -> pegE c (PInstr (IConditionTest nm v)) i s (SuccE i [] 0 s)
| pe_when_ko c nm v i s : has_cond c nm <> v -> pegE c (PInstr (IConditionTest nm v)) i s (FailE i s)
| pe_exists_ok c nm v i s : has_symbol s nm = v -> pegE c (PInstr (ISymbolExists nm v)) i s (SuccE i [] 0 s)
| pe_exists_ko c nm v i s : has_symbol s nm <> v -> pegE c (PInstr (ISymbolExists nm v)) i s (FailE i s)
| pe_symmatch_ok c k nm idx i j s :
    sym_match k (get_symbols s nm) idx i = Some j -> pegE c (PInstr (ISymbolMatch k false nm idx)) i s (SuccE j [] 0 s)
| pe_symmatch_ko c k nm idx i s :
    sym_match k (get_symbols s nm) idx i = None -> pegE c (PInstr (ISymbolMatch k false nm idx)) i s (FailE i s)
| pe_seq_ok c a b i j t1 f1 s s1 j' t2 f2 s2 :
    pegE c a i s (SuccE j t1 f1 s1) -> pegE c b j s1 (SuccE j' t2 f2 s2) -> pegE c (PSeq a b) i s (SuccE j' (t1 ++ t2) (N.max f1 f2) s2)
| pe_seq_ko2 c a b i j t1 f1 s s1 f2 s2 :
    pegE c a i s (SuccE j t1 f1 s1) -> pegE c b j s1 (FailE f2 s2) -> pegE c (PSeq a b) i s (FailE (N.max f1 f2) s2)
| pe_seq_ko1 c a b i s f1 s1 : pegE c a i s (FailE f1 s1) -> pegE c (PSeq a b) i s (FailE f1 s1)
| pe_alt_l c a b i s j t f s1 : pegE c a i s (SuccE j t f s1) -> pegE c (PAlt a b) i s (SuccE j t f s1)
  (* the second alternative starts from the table the failed first alternative left behind *)
| pe_alt_r_ok c a b i s f1 s1 j t f2 s2 :
    pegE c a i s (FailE f1 s1) -> pegE c b i s1 (SuccE j t f2 s2) -> pegE c (PAlt a b) i s (SuccE j t (N.max f1 f2) s2)
| pe_alt_r_ko c a b i s f1 s1 f2 s2 :
    pegE c a i s (FailE f1 s1) -> pegE c b i s1 (FailE f2 s2) -> pegE c (PAlt a b) i s (FailE (N.max f1 f2) s2)
| pe_star_more c a i s j t1 f1 s1 j' t2 f2 s2 :
    pegE c a i s (SuccE j t1 f1 s1) -> pegE c (PStar a) j s1 (SuccE j' t2 f2 s2) -> pegE c (PStar a) i s (SuccE j' (t1 ++ t2) (N.max f1 f2) s2)
| pe_star_done c a i s f s1 : pegE c a i s (FailE f s1) -> pegE c (PStar a) i s (SuccE i [] f s1)
| pe_not_ok c a i s f s1 : pegE c a i s (FailE f s1) -> pegE c (PNot a) i s (SuccE i [] f s1)
| pe_not_ko c a i s j t f s1 : pegE c a i s (SuccE j t f s1) -> pegE c (PNot a) i s (FailE (N.max f j) s1)
| pe_and_ok c a i s j t f s1 : pegE c a i s (SuccE j t f s1) -> pegE c (PAnd a) i s (SuccE i t f s1)
| pe_and_ko c a i s f s1 : pegE c a i s (FailE f s1) -> pegE c (PAnd a) i s (FailE (N.max f i) s1)
| pe_eoi_ok c i s : tmatch ucd inp (IMatchAny 1) i = None -> pegE c PEoi i s (SuccE i [] i s)
| pe_eoi_ko c i j s : tmatch ucd inp (IMatchAny 1) i = Some j -> pegE c PEoi i s (FailE j s)
| pe_repeat c n m a i s o : pegE_rep c (N.to_nat n) (N.to_nat m - N.to_nat n) a i s o -> pegE c (PRep n m a) i s o
| pe_call c r prec mode body i s o : G r = Some body -> pegE c body i s o -> pegE c (PCall r prec mode) i s o
| pe_inline c r body i s o : pegE c body i s o -> pegE c (PInline r body) i s o
| pe_skip c sp i s o : pegE c sp i s o -> pegE c (PSkip sp) i s o
| pe_capture_ok c id a i s j t f s1 :
    pegE c a i s (SuccE j t f s1) -> pegE c (PWrap ICaptureStart a (ICaptureEnd id)) i s (SuccE j (t ++ [TrCap id i (j - i)]) f s1)
| pe_capture_ko c id a i s f s1 : pegE c a i s (FailE f s1) -> pegE c (PWrap ICaptureStart a (ICaptureEnd id)) i s (FailE f s1)
  (* on(c)[a] / off(c)[a]: the condition holds its new value inside a only *)
| pe_cond c nm v a i s o : pegE (set_cond c nm v) a i s o -> pegE c (PWrap (IConditionPush nm v) a IConditionPop) i s o
  (* symbol(S)[a]: the matched text is recorded when a succeeds *)
| pe_symdef_ok c nm a i s j t f s1 :
    pegE c a i s (SuccE j t f s1) ->
    pegE c (PWrap (ISymbolStart nm) a ISymbolEnd) i s (SuccE j t f (add_symbol s1 nm (firstnN (j - i) (skipnN i inp))))
| pe_symdef_ko c nm a i s f s1 : pegE c a i s (FailE f s1) -> pegE c (PWrap (ISymbolStart nm) a ISymbolEnd) i s (FailE f s1)
  (* block[a] / local[a] / local(S)[a]: whatever a does to the table is undone when the scope is left, either way *)
| pe_scope_ok c kind nm a i s j t f s1 :
    pegE c a i (scope_enter kind nm s) (SuccE j t f s1) -> pegE c (PWrap (ISymbolPush kind nm) a ISymbolPop) i s (SuccE j t f s)
| pe_scope_ko c kind nm a i s f s1 :
    pegE c a i (scope_enter kind nm s) (FailE f s1) -> pegE c (PWrap (ISymbolPush kind nm) a ISymbolPop) i s (FailE f s)
with pegE_rep : list name -> nat -> nat -> pexp -> N -> symtab -> oute -> Prop :=
| pr_done c a i s : pegE_rep c 0 0 a i s (SuccE i [] 0 s)
| pr_must_ok c n k a i s j t1 f1 s1 o :
    pegE c a i s (SuccE j t1 f1 s1) -> pegE_rep c n k a j s1 o ->
    pegE_rep c (S n) k a i s (match o with SuccE j' t2 f2 s2 => SuccE j' (t1 ++ t2) (N.max f1 f2) s2 | FailE f2 s2 => FailE (N.max f1 f2) s2 end)
| pr_must_ko c n k a i s f s1 : pegE c a i s (FailE f s1) -> pegE_rep c (S n) k a i s (FailE f s1)
| pr_opt_ok c k a i s j t1 f1 s1 j' t2 f2 s2 :
    pegE c a i s (SuccE j t1 f1 s1) -> pegE_rep c 0 k a j s1 (SuccE j' t2 f2 s2) ->
    pegE_rep c 0 (S k) a i s (SuccE j' (t1 ++ t2) (N.max f1 f2) s2)
| pr_opt_stop c k a i s f s1 : pegE c a i s (FailE f s1) -> pegE_rep c 0 (S k) a i s (SuccE i [] f s1).

(* the fragment covered *)
Fixpoint fragE (p : pexp) : bool :=
  match p with
  | PEmpty | PEoi => true
  | PInstr ins =>
      is_terminal ins ||
      match ins with
      | IAction _ | IConditionTest _ _ | ISymbolExists _ _ => true
      | ISymbolMatch _ cf _ _ => negb cf
      | _ => false
      end
  | PSeq a b | PAlt a b => fragE a && fragE b
  | PStar a | PNot a | PAnd a | PRep _ _ a | PInline _ a | PSkip a => fragE a
  | PCall _ prec _ => prec =? 0
  | PWrap ICaptureStart a (ICaptureEnd _) => fragE a
  | PWrap (IConditionPush _ _) a IConditionPop => fragE a
  | PWrap (ISymbolStart _) a ISymbolEnd => fragE a
  | PWrap (ISymbolPush kind nm) a ISymbolPop => fragE a && ((kind =? 1) || ((kind =? 0) || (kind =? 2)) && match nm with [] => true | _ => false end)
  | _ => false
  end.

End PegEnv.

(* condition sets are kept strictly sorted (Machine.v); restoring a saved value then gives back the very list *)
Fixpoint conds_sorted (c : list name) : Prop :=
  match c with
  | [] => True
  | x :: r => match r with [] => True | y :: _ => name_ltb x y = true end /\ conds_sorted r
  end.
