(* Reference semantics: Ford's natural semantics of parsing expressions, on the core tree [pexp], for
   the PEG fragment (terminals, sequence, ordered choice, repetition, predicates, eoi, repeat(n,m),
   rule calls, actions, captures).  Outcomes carry the consumed offset, the left-to-right trace of
   actions/captures of the successful derivation, and the farthest offset at which a match attempt
   failed.  Written from the PEG literature and lug's documentation, not from the machine. *)
From Coq Require Import NArith ZArith List Bool.
From Lug Require Import Gen.UcdTables Utf8.Utf8Model Ucd.Lookup Ucd.RuneSet VM.Instr Lang.Elab VM.Machine.
Import ListNotations.
Local Open Scope N_scope.

Inductive tr_item := TrAct (id : N) | TrCap (id start size : N).
Inductive out := Succ (j : N) (t : list tr_item) (far : N) | Fail (far : N).

Section Peg.
Variable ucd : ucd_table.
Variable inp : list N.                 (* the whole input *)
Variable G : nat -> option pexp.       (* rule bodies *)

Definition rest (i : N) : list N := skipnN i inp.

(* one terminal at offset i: the offset after it, or None *)
Definition tmatch (ins : sinstr) (i : N) : option N :=
  match ins with
  | IMatch s => if lenN s =? 0 then Some i
                else if (i <? lenN inp) && (lenN s <=? lenN inp - i) && list_eqb (firstnN (lenN s) (rest i)) s then Some (i + lenN s) else None
  | IMatchOctet b => match rest i with c :: _ => if c =? b then Some (i + 1) else None | [] => None end
  | IMatchAny _ => match rest i with _ :: r => Some (i + 1 + N.of_nat (skip_trail_w r)) | [] => None end
  | IMatchEol => match rest i with
                 | [] => None
                 | l => let n := utf8_match_eol l in if n =? 0 then None else Some (i + n)
                 end
  | IMatchSet set => match rest i with
                     | [] => None
                     | l => let '(n, rune) := decode_rune_w l in if contains set rune then Some (i + N.of_nat n) else None
                     end
  | IMatchClass k penum mask => match rest i with
                     | [] => None
                     | l => let '(n, rune) := decode_rune_w l in
                            match class_test ucd k penum mask rune with Some true => Some (i + N.of_nat n) | _ => None end
                     end
  | _ => None
  end.

Definition is_terminal (ins : sinstr) : bool :=
  match ins with
  | IMatch _ | IMatchOctet _ | IMatchAny _ | IMatchEol | IMatchSet _ | IMatchClass _ _ _ => true
  | _ => false
  end.

Inductive peg : pexp -> N -> out -> Prop :=
| peg_empty i : peg PEmpty i (Succ i [] 0)
| peg_term_ok ins i j : is_terminal ins = true -> tmatch ins i = Some j -> peg (PInstr ins) i (Succ j [] 0)
| peg_term_ko ins i : is_terminal ins = true -> tmatch ins i = None -> peg (PInstr ins) i (Fail i)
| peg_action id i : peg (PInstr (IAction id)) i (Succ i [TrAct id] 0)
| peg_seq_ok a b i j t1 f1 j' t2 f2 :
    peg a i (Succ j t1 f1) -> peg b j (Succ j' t2 f2) -> peg (PSeq a b) i (Succ j' (t1 ++ t2) (N.max f1 f2))
| peg_seq_ko2 a b i j t1 f1 f2 :
    peg a i (Succ j t1 f1) -> peg b j (Fail f2) -> peg (PSeq a b) i (Fail (N.max f1 f2))
| peg_seq_ko1 a b i f1 : peg a i (Fail f1) -> peg (PSeq a b) i (Fail f1)
| peg_alt_l a b i j t f : peg a i (Succ j t f) -> peg (PAlt a b) i (Succ j t f)
| peg_alt_r_ok a b i f1 j t f2 :
    peg a i (Fail f1) -> peg b i (Succ j t f2) -> peg (PAlt a b) i (Succ j t (N.max f1 f2))
| peg_alt_r_ko a b i f1 f2 : peg a i (Fail f1) -> peg b i (Fail f2) -> peg (PAlt a b) i (Fail (N.max f1 f2))
| peg_star_more a i j t1 f1 j' t2 f2 :
    peg a i (Succ j t1 f1) -> peg (PStar a) j (Succ j' t2 f2) -> peg (PStar a) i (Succ j' (t1 ++ t2) (N.max f1 f2))
| peg_star_done a i f : peg a i (Fail f) -> peg (PStar a) i (Succ i [] f)
| peg_not_ok a i f : peg a i (Fail f) -> peg (PNot a) i (Succ i [] f)
| peg_not_ko a i j t f : peg a i (Succ j t f) -> peg (PNot a) i (Fail (N.max f j))
  (* a positive predicate consumes nothing; what its body scheduled stays scheduled *)
| peg_and_ok a i j t f : peg a i (Succ j t f) -> peg (PAnd a) i (Succ i t f)
| peg_and_ko a i f : peg a i (Fail f) -> peg (PAnd a) i (Fail (N.max f i))
| peg_eoi_ok i : tmatch (IMatchAny 1) i = None -> peg PEoi i (Succ i [] i)
| peg_eoi_ko i j : tmatch (IMatchAny 1) i = Some j -> peg PEoi i (Fail j)
| peg_repeat n m a i o : peg_rep (N.to_nat n) (N.to_nat m - N.to_nat n) a i o -> peg (PRep n m a) i o
| peg_call r prec mode body i o : G r = Some body -> peg body i o -> peg (PCall r prec mode) i o
| peg_inline r body i o : peg body i o -> peg (PInline r body) i o
| peg_skip sp i o : peg sp i o -> peg (PSkip sp) i o
| peg_capture_ok c a i j t f :
    peg a i (Succ j t f) -> peg (PWrap ICaptureStart a (ICaptureEnd c)) i (Succ j (t ++ [TrCap c i (j - i)]) f)
| peg_capture_ko c a i f : peg a i (Fail f) -> peg (PWrap ICaptureStart a (ICaptureEnd c)) i (Fail f)
(* repeat(n, m)[a]: n mandatory matches, then at most k = m - n further ones, stopping at the first failure *)
with peg_rep : nat -> nat -> pexp -> N -> out -> Prop :=
| rep_done a i : peg_rep 0 0 a i (Succ i [] 0)
| rep_must_ok n k a i j t1 f1 o :
    peg a i (Succ j t1 f1) -> peg_rep n k a j o ->
    peg_rep (S n) k a i (match o with Succ j' t2 f2 => Succ j' (t1 ++ t2) (N.max f1 f2) | Fail f2 => Fail (N.max f1 f2) end)
| rep_must_ko n k a i f : peg a i (Fail f) -> peg_rep (S n) k a i (Fail f)
| rep_opt_ok k a i j t1 f1 j' t2 f2 :
    peg a i (Succ j t1 f1) -> peg_rep 0 k a j (Succ j' t2 f2) -> peg_rep 0 (S k) a i (Succ j' (t1 ++ t2) (N.max f1 f2))
| rep_opt_stop k a i f : peg a i (Fail f) -> peg_rep 0 (S k) a i (Succ i [] f).

(* the fragment the semantics above covers *)
Fixpoint frag (p : pexp) : bool :=
  match p with
  | PEmpty | PEoi => true
  | PInstr ins => is_terminal ins || match ins with IAction _ => true | _ => false end
  | PSeq a b | PAlt a b => frag a && frag b
  | PStar a | PNot a | PAnd a | PRep _ _ a | PInline _ a | PSkip a => frag a
  | PCall _ prec _ => prec =? 0
  | PWrap ICaptureStart a (ICaptureEnd _) => frag a
  | _ => false
  end.

End Peg.

Definition kind_of (r : response) : tr_item :=
  match r_kind r with RAct id => TrAct id | RCap id s n => TrCap id s n end.
Definition kinds (l : list response) : list tr_item := map kind_of l.
