(* Executable form of the reference semantics (Spec/Peg.v): a fuelled evaluator.  It is the oracle of
   the conformance search (reference semantics vs implementation); Proofs/PegEvalProofs.v shows it
   sound and complete for the relation. *)
From Coq Require Import NArith ZArith List Bool.
From Lug Require Import Gen.UcdTables Utf8.Utf8Model Ucd.Lookup Ucd.RuneSet VM.Instr Lang.Elab VM.Machine Spec.Peg.
Import ListNotations.
Local Open Scope N_scope.

Section Eval.
Variable ucd : ucd_table.
Variable inp : list N.
Variable G : nat -> option pexp.

(* repeat(n, k extra) given the evaluator of the body *)
Fixpoint rep_eval (ev : N -> option out) (n k : nat) (i : N) : option out :=
  match n with
  | S n' =>
      match ev i with
      | Some (Succ j t1 f1) =>
          match rep_eval ev n' k j with
          | Some (Succ j' t2 f2) => Some (Succ j' (t1 ++ t2) (N.max f1 f2))
          | Some (Fail f2) => Some (Fail (N.max f1 f2))
          | None => None
          end
      | Some (Fail f) => Some (Fail f)
      | None => None
      end
  | O =>
      (fix opt (k : nat) (i : N) : option out :=
         match k with
         | O => Some (Succ i [] 0)
         | S k' =>
             match ev i with
             | Some (Succ j t1 f1) =>
                 match opt k' j with
                 | Some (Succ j' t2 f2) => Some (Succ j' (t1 ++ t2) (N.max f1 f2))
                 | other => other
                 end
             | Some (Fail f) => Some (Succ i [] f)
             | None => None
             end
         end) k i
  end.

Fixpoint peg_eval (fuel : nat) (p : pexp) (i : N) : option out :=
  match fuel with
  | O => None
  | S fu =>
    match p with
    | PEmpty => Some (Succ i [] 0)
    | PInstr ins =>
        if is_terminal ins then
          match tmatch ucd inp ins i with Some j => Some (Succ j [] 0) | None => Some (Fail i) end
        else match ins with IAction id => Some (Succ i [TrAct id] 0) | _ => None end
    | PSeq a b =>
        match peg_eval fu a i with
        | Some (Succ j t1 f1) =>
            match peg_eval fu b j with
            | Some (Succ j' t2 f2) => Some (Succ j' (t1 ++ t2) (N.max f1 f2))
            | Some (Fail f2) => Some (Fail (N.max f1 f2))
            | None => None
            end
        | Some (Fail f1) => Some (Fail f1)
        | None => None
        end
    | PAlt a b =>
        match peg_eval fu a i with
        | Some (Succ j t f) => Some (Succ j t f)
        | Some (Fail f1) =>
            match peg_eval fu b i with
            | Some (Succ j t f2) => Some (Succ j t (N.max f1 f2))
            | Some (Fail f2) => Some (Fail (N.max f1 f2))
            | None => None
            end
        | None => None
        end
    | PStar a =>
        match peg_eval fu a i with
        | Some (Succ j t1 f1) =>
            match peg_eval fu (PStar a) j with
            | Some (Succ j' t2 f2) => Some (Succ j' (t1 ++ t2) (N.max f1 f2))
            | Some (Fail _) => None
            | None => None
            end
        | Some (Fail f) => Some (Succ i [] f)
        | None => None
        end
    | PNot a =>
        match peg_eval fu a i with
        | Some (Succ j t f) => Some (Fail (N.max f j))
        | Some (Fail f) => Some (Succ i [] f)
        | None => None
        end
    | PAnd a =>
        match peg_eval fu a i with
        | Some (Succ j t f) => Some (Succ i t f)
        | Some (Fail f) => Some (Fail (N.max f i))
        | None => None
        end
    | PEoi => match tmatch ucd inp (IMatchAny 1) i with None => Some (Succ i [] i) | Some j => Some (Fail j) end
    | PRep n m a => rep_eval (peg_eval fu a) (N.to_nat n) (N.to_nat m - N.to_nat n) i
    | PCall r _ _ => match G r with Some body => peg_eval fu body i | None => None end
    | PInline _ body => peg_eval fu body i
    | PSkip sp => peg_eval fu sp i
    | PWrap ICaptureStart a (ICaptureEnd c) =>
        match peg_eval fu a i with
        | Some (Succ j t f) => Some (Succ j (t ++ [TrCap c i (j - i)]) f)
        | Some (Fail f) => Some (Fail f)
        | None => None
        end
    | _ => None
    end
  end.

End Eval.

Definition stmt_peg_eval_sound : Prop :=
  forall ucd inp G fuel p i o, peg_eval ucd inp G fuel p i = Some o -> peg ucd inp G p i o.
Definition stmt_peg_eval_complete : Prop :=
  forall ucd inp G p i o, peg ucd inp G p i o -> exists fuel, peg_eval ucd inp G fuel p i = Some o.
