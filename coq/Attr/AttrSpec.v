(* C07 -- "Attribute variables behave like locals of each rule invocation": statements.

   Property text: a value returned by a semantic action is available to the enclosing v%e binding and to
   collect/synthesize directives in the order produced, and a variable bound in a rule keeps its value
   across any nested or recursive invocation of rules that bind the same variables.  An attribute grammar
   therefore computes, for every input it accepts, the same result as a plain recursive evaluation of the
   parse tree, and leaves on the attribute stack exactly the values nobody consumed.

   This file contains (1) the frame-balance notion and the frame-locality statement, (2) the net effect of
   an action sequence on the result stack and the exactness statement, (3) four concrete attribute grammars
   (the ones of cpp/attrdrv.cpp): their parse trees, the plain recursive evaluation `ev*` of a tree, the
   action sequence `ops*` the compiled grammar runs for that tree (read off the encoder; validated on every
   run of the check against the real library, action by action, by tools/props/C07.py), and the statement
   that executing the actions computes the evaluation. *)
From Coq Require Import ZArith List Bool Arith Lia.
From Lug Require Import Attr.AttrModel.
Import ListNotations.

(* ------------------------------------------------------------------ (1) frames *)

(* depth of the frame stack relative to the start of the sequence; None = pops below its own floor *)
Fixpoint fdepth (ops : list aop) (d : nat) : option nat :=
  match ops with
  | [] => Some d
  | op :: rest =>
      match op with
      | APushFrame _ => fdepth rest (S d)
      | APopFrame _ | APopAssign _ _ | APopUser _ _ _ =>
          match d with O => None | S d' => fdepth rest d' end
      | _ => fdepth rest d
      end
  end.

(* every frame pushed by the sequence is popped by the sequence, and nothing else is popped *)
Definition balanced (body : list aop) : Prop := fdepth body 0 = Some 0.

(* Whatever a balanced body does (including binding the variables of V again and pushing/popping frames of
   its own, to any depth), after push V; body; pop V every variable of V has the value it had before, the
   frame stack is what it was, and everything else is as the body left it. *)
Definition stmt_C07_frame_locality : Prop :=
  forall (V : list var) (body : list aop) (st st' : astate),
    balanced body ->
    exec (APushFrame V :: body ++ [APopFrame V]) st = Some st' ->
    (forall x, In x V -> vars st' x = vars st x) /\
    frames st' = frames st /\
    exists st2, exec body (step_push_frame V st) = Some st2 /\
                (forall x, ~ In x V -> vars st' x = vars st2 x) /\
                results st' = results st2 /\ marks st' = marks st2.

(* and the pop cannot fail if the body did not *)
Definition stmt_C07_frame_bracket_total : Prop :=
  forall (V : list var) (body : list aop) (st st2 : astate),
    balanced body ->
    exec body (step_push_frame V st) = Some st2 ->
    exists st', exec (APushFrame V :: body ++ [APopFrame V]) st = Some st'.

(* a balanced sequence never touches the frames that were there before it *)
Definition stmt_C07_balanced_preserves_frames : Prop :=
  forall (body : list aop) (st st' : astate),
    balanced body -> exec body st = Some st' -> frames st' = frames st.

(* ------------------------------------------------------------------ (2) result stack *)

(* what one action does to the result stack, by the definition of the directive it implements *)
Inductive sev : Type :=
| EvPush (v : value)
| EvPop (n : nat).

Definition user_events (f : uact) (e : venv) : list sev :=
  match snd (f e) with Some v => [EvPush v] | None => [] end.

Definition op_events (op : aop) (st : astate) : list sev :=
  match op with
  | APushFrame _ | APopFrame _ | ACollectStart => []
  | AAssign _ | APopAssign _ _ => [EvPop 1]
  | AUser _ f => user_events f (vars st)
  | APopUser V _ f => match step_pop_frame V st with
                      | Some st1 => user_events f (vars st1)
                      | None => []
                      end
  | ACollectFinish _ mk =>
      match marks st with
      | i :: _ => let k := length (results st) - i in [EvPop k; EvPush (mk (rev (firstn k (results st))))]
      | [] => []
      end
  | ASynth n mk => [EvPop n; EvPush (mk (rev (firstn n (results st))))]
  end.

Fixpoint events (ops : list aop) (st : astate) : list sev :=
  match ops with
  | [] => []
  | op :: rest => match step op st with
                  | None => []
                  | Some st' => op_events op st ++ events rest st'
                  end
  end.

(* net effect of a sequence of pushes and pops: (how many values of the stack it started with were
   consumed, the values pushed and not consumed -- newest first) *)
Fixpoint net (evs : list sev) (k : nat) (out : list value) : nat * list value :=
  match evs with
  | [] => (k, out)
  | EvPush v :: rest => net rest k (v :: out)
  | EvPop n :: rest => net rest (k + (n - length out)) (skipn n out)
  end.

Definition stmt_C07_stack_exact : Prop :=
  forall (ops : list aop) (st st' : astate),
    exec ops st = Some st' ->
    fst (net (events ops st) 0 []) <= length (results st) /\
    results st' = snd (net (events ops st) 0 []) ++ skipn (fst (net (events ops st) 0 [])) (results st).

(* the values below what a sequence consumes are not even looked at: the same sequence started on a
   deeper stack (marks shifted accordingly) does the same and leaves the extra values where they were *)
Definition deepen (base : list value) (st : astate) : astate :=
  mkSt (vars st) (frames st) (results st ++ base) (map (fun i => i + length base) (marks st)).

Definition stmt_C07_stack_base_untouched : Prop :=
  forall (ops : list aop) (base : list value) (st st' : astate),
    exec ops st = Some st' ->
    exec ops (deepen base st) = Some (deepen base st').

(* ------------------------------------------------------------------ (3) grammars *)

Definition M : Z := 1000003.
Definition addM (a b : Z) : Z := ((a + b) mod M)%Z.
Definition subM (a b : Z) : Z := ((a - b) mod M)%Z.
Definition mulM (a b : Z) : Z := ((a * b) mod M)%Z.

Definition zof (v : value) : Z := match v with VInt z => z | VList _ => 0%Z end.
Definition zlist (v : value) : list Z := match v with VList l => map zof l | VInt _ => [] end.

Definition u_push (z : Z) : uact := fun e => (e, Some (VInt z)).                 (* [](syntax s){ return stol(s); } *)
Definition u_ret (x : var) : uact := fun e => (e, Some (e x)).                   (* []{ return x; } *)
Definition u_bin (op : Z -> Z -> Z) (x y : var) : uact :=                        (* []{ x = op(x, y); } *)
  fun e => (upd e x (VInt (op (zof (e x)) (zof (e y)))), None).
Definition u_copy (x y : var) : uact := fun e => (upd e x (e y), None).          (* []{ x = y; } *)

Definition init_state (e : venv) : astate := mkSt e [] [] [].

(* ---- calc:   Number = lexeme[+digit] <A0
                Factor = n%Number <A1{return n} | '(' > e%Expr > ')' <A2{return e}
                Term   = l%Factor > *( '*' > r%Factor <A3{l=l*r} ) <A4{return l}
                Expr   = l%Term > *( '+' > r%Term <A5{l=l+r} | '-' > r%Term <A6{l=l-r} ) <A7{return l}
   Attribute frames (encoder_metadata): empty at the first binding of a rule; (n) in Factor's second
   alternative (the frame is threaded through choice); (l) in the loop bodies, and (l,r) in the second
   alternative of Expr's loop.  Every `v % Rule` with a non-empty frame takes the inlined-epilogue path. *)
Inductive cexpr : Type :=
| CTerm (t : cterm)
| CAdd (e : cexpr) (t : cterm)
| CSub (e : cexpr) (t : cterm)
with cterm : Type :=
| CFac (f : cfac)
| CMul (t : cterm) (f : cfac)
with cfac : Type :=
| CNum (k : Z)
| CPar (e : cexpr).

Fixpoint evE (e : cexpr) : Z :=
  match e with
  | CTerm t => evT t
  | CAdd e t => addM (evE e) (evT t)
  | CSub e t => subM (evE e) (evT t)
  end
with evT (t : cterm) : Z :=
  match t with
  | CFac f => evF f
  | CMul t f => mulM (evT t) (evF f)
  end
with evF (f : cfac) : Z :=
  match f with
  | CNum k => k
  | CPar e => evE e
  end.

Definition c_n : var := 0.
Definition c_e : var := 1.
Definition c_l : var := 2.
Definition c_r : var := 3.

(* opsEb / opsTb: the rule body up to (not including) the final `return l` action *)
Fixpoint opsEb (e : cexpr) : list aop :=
  match e with
  | CTerm t => (opsTb t ++ [AUser 4 (u_ret c_l)]) ++ [AAssign c_l]
  | CAdd e t => opsEb e ++ APushFrame [c_l] :: (opsTb t ++ [AUser 4 (u_ret c_l)])
                      ++ [APopAssign [c_l] c_r; AUser 5 (u_bin addM c_l c_r)]
  | CSub e t => opsEb e ++ APushFrame [c_l; c_r] :: (opsTb t ++ [AUser 4 (u_ret c_l)])
                      ++ [APopAssign [c_l; c_r] c_r; AUser 6 (u_bin subM c_l c_r)]
  end
with opsTb (t : cterm) : list aop :=
  match t with
  | CFac f => opsF f ++ [AAssign c_l]
  | CMul t f => opsTb t ++ APushFrame [c_l] :: opsF f ++ [APopAssign [c_l] c_r; AUser 3 (u_bin mulM c_l c_r)]
  end
with opsF (f : cfac) : list aop :=
  match f with
  | CNum k => [AUser 0 (u_push k); AAssign c_n; AUser 1 (u_ret c_n)]
  | CPar e => APushFrame [c_n] :: (opsEb e ++ [AUser 7 (u_ret c_l)]) ++ [APopAssign [c_n] c_e; AUser 2 (u_ret c_e)]
  end.

Definition opsT (t : cterm) : list aop := opsTb t ++ [AUser 4 (u_ret c_l)].
Definition opsE (e : cexpr) : list aop := opsEb e ++ [AUser 7 (u_ret c_l)].

Definition stmt_C07_calc : Prop :=
  forall (e : cexpr) (st : astate),
    exists st', exec (opsE e) st = Some st' /\
                results st' = VInt (evE e) :: results st /\
                frames st' = frames st /\ marks st' = marks st /\
                (forall x, 3 < x -> vars st' x = vars st x).

(* ---- list:   Nested = '[' > xs%collect<vector<long>>[Seq] > ']' > '*' > k%Item <A2{return fold(xs)*k}
                Item   = Number | Nested
                Seq    = x%Item > ~(',' > Seq) <A1{return x}
   Frames: (x) at the recursive reference to Seq (plain rule reference: call_with_frame, two actions);
   (xs) at k%Item (inlined epilogue); xs holds a container. *)
Inductive lseq : Type :=
| LOne (i : litem)
| LCons (i : litem) (s : lseq)
with litem : Type :=
| LNum (z : Z)
| LNest (s : lseq) (k : litem).

Definition foldM (l : list Z) : Z := fold_left (fun a v => ((a * 31 + v) mod M)%Z) l 7%Z.

(* evS: the values a Seq leaves on the result stack, in the order they are pushed (the tail comes first:
   `return x` runs after the recursive invocation) *)
Fixpoint evS (s : lseq) : list Z :=
  match s with
  | LOne i => [evI i]
  | LCons i s => evS s ++ [evI i]
  end
with evI (i : litem) : Z :=
  match i with
  | LNum z => z
  | LNest s k => mulM (foldM (evS s)) (evI k)
  end.

Definition l_x : var := 0.
Definition l_xs : var := 1.
Definition l_k : var := 2.

Definition u_nest : uact := fun e => (e, Some (VInt (mulM (foldM (zlist (e l_xs))) (zof (e l_k))))).

Fixpoint opsS (s : lseq) : list aop :=
  match s with
  | LOne i => opsI i ++ [AAssign l_x; AUser 1 (u_ret l_x)]
  | LCons i s => opsI i ++ AAssign l_x :: APushFrame [l_x] :: opsS s ++ [APopFrame [l_x]; AUser 1 (u_ret l_x)]
  end
with opsI (i : litem) : list aop :=
  match i with
  | LNum z => [AUser 0 (u_push z)]
  | LNest s k => ACollectStart :: opsS s ++ ACollectFinish 1 VList :: AAssign l_xs :: APushFrame [l_xs]
                   :: opsI k ++ [APopAssign [l_xs] l_k; AUser 2 u_nest]
  end.

Definition stmt_C07_list : Prop :=
  forall (i : litem) (st : astate),
    exists st', exec (opsI i) st = Some st' /\
                results st' = VInt (evI i) :: results st /\
                frames st' = frames st /\ marks st' = marks st /\
                (forall x, 2 < x -> vars st' x = vars st x).

(* the sequence rule on its own: it leaves exactly its values, newest on top, in the order produced *)
Definition stmt_C07_list_seq : Prop :=
  forall (s : lseq) (st : astate),
    exists st', exec (opsS s) st = Some st' /\
                results st' = rev (map VInt (evS s)) ++ results st /\
                frames st' = frames st /\ marks st' = marks st.

(* ---- mirror: Tree = synthesize<Node,long>[Number]
                     | '(' > synthesize<Node,Node,Node>[ a%Tree > ',' > b%Tree <A1{return b} <A2{return a} ] > ')'
   Frames: empty at a%Tree (plain call + assign), (a) at b%Tree (inlined epilogue).  The same two
   variables are bound on both sides of every recursive invocation. *)
Inductive mtree : Type :=
| MLeaf (z : Z)
| MNode (a b : mtree).

Fixpoint evM (t : mtree) : value :=
  match t with
  | MLeaf z => VList [VInt z]
  | MNode a b => VList [evM b; evM a]
  end.

Definition m_a : var := 0.
Definition m_b : var := 1.

Fixpoint opsM (t : mtree) : list aop :=
  match t with
  | MLeaf z => [AUser 0 (u_push z); ASynth 1 VList]
  | MNode a b => opsM a ++ AAssign m_a :: APushFrame [m_a] :: opsM b
                   ++ [APopAssign [m_a] m_b; AUser 1 (u_ret m_b); AUser 2 (u_ret m_a); ASynth 2 VList]
  end.

Definition stmt_C07_mirror : Prop :=
  forall (t : mtree) (st : astate),
    exists st', exec (opsM t) st = Some st' /\
                results st' = evM t :: results st /\
                frames st' = frames st /\ marks st' = marks st /\
                (forall x, 1 < x -> vars st' x = vars st x).

(* ---- chain:  Chain = c%Number > ( ':' > (Chain <A1{acc = acc*10+c}) | eps <A2{acc = c} )
                Top   = Chain <A3{return acc}
   Frame (c) at the reference to Chain, whose action is attached to the rule reference itself: the
   inlined epilogue of action_expression (ONE action pops the frame and runs the user callable). *)
Inductive chain : Type :=
| KOne (z : Z)
| KCons (z : Z) (t : chain).

Fixpoint evK (t : chain) : Z :=
  match t with
  | KOne z => z
  | KCons z t => ((evK t * 10 + z) mod M)%Z
  end.

Definition k_c : var := 0.
Definition k_acc : var := 1.

Definition horner (a c : Z) : Z := ((a * 10 + c) mod M)%Z.

Fixpoint opsKb (t : chain) : list aop :=
  match t with
  | KOne z => [AUser 0 (u_push z); AAssign k_c; AUser 2 (u_copy k_acc k_c)]
  | KCons z t => AUser 0 (u_push z) :: AAssign k_c :: APushFrame [k_c] :: opsKb t
                   ++ [APopUser [k_c] 1 (u_bin horner k_acc k_c)]
  end.

Definition opsK (t : chain) : list aop := opsKb t ++ [AUser 3 (u_ret k_acc)].

Definition stmt_C07_chain : Prop :=
  forall (t : chain) (st : astate),
    exists st', exec (opsK t) st = Some st' /\
                results st' = VInt (evK t) :: results st /\
                frames st' = frames st /\ marks st' = marks st /\
                (forall x, 1 < x -> vars st' x = vars st x).

(* ---- what a missing save/restore would do (the statements above are not vacuous about it): the same
   action sequences with the frame actions removed compute something else *)
Definition strip_frames (op : aop) : list aop :=
  match op with
  | APushFrame _ | APopFrame _ => []
  | APopAssign _ x => [AAssign x]
  | APopUser _ id f => [AUser id f]
  | _ => [op]
  end.

Definition stmt_C07_frames_needed : Prop :=
  (* 2*(3*4): without frames Term's l is clobbered by the nested invocation *)
  (let e := CTerm (CMul (CFac (CNum 2)) (CPar (CTerm (CMul (CFac (CNum 3)) (CNum 4))))) in
   option_map results (exec (flat_map strip_frames (opsE e)) (init_state (fun _ => VInt 0))) <> Some [VInt (evE e)]) /\
  (let t := KCons 1 (KCons 2 (KOne 3)) in
   option_map results (exec (flat_map strip_frames (opsK t)) (init_state (fun _ => VInt 0))) <> Some [VInt (evK t)]).

(* the observation stream of the extracted driver is a by-product of exec *)
Definition stmt_exec_obs_exec : Prop :=
  forall ops st, snd (exec_obs ops st) = exec ops st.
