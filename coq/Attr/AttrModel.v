(* C07 -- model of lug's attribute machinery (class environment: attribute_frame_stack_,
   attribute_result_stack_, attribute_collection_stack_) as it is driven by the semantic actions that the
   encoder emits for `v % e`, `e < action`, rule references with a non-empty attribute frame,
   collect<C>[e] and synthesize<T,A...>[e].   Model only: no proofs in this file.

   What is modelled.  lug does not run semantic actions while matching: every `action`/`capture_end`
   instruction pushes a response and parser_base::do_accept runs the surviving responses in order.  So the
   behaviour of an attribute grammar on an accepted input is the effect of a *sequence of actions* on the
   environment.  `aop` is the set of actions the encoder can emit for attribute support (lug.hpp):

     APushFrame V        encoder::call_with_frame / attribute_action_expression::evaluate:
                           envr.push_attribute_frame(frame)      (saves a copy of the variables of V)
     APopFrame V         encoder::call_with_frame:  envr.pop_attribute_frame(frame)   (checked pop, frame = saved)
     AAssign x           assign_to_expression::do_epilogue:  *t = envr.pop_attribute<T>()   (checked pop)
     APopAssign V x      assign_to_expression::do_epilogue_inlined (ONE action):  pop_attribute_frame(f); *t = pop
     AUser id f          action_expression / capture_expression::do_epilogue with a user callable: the callable
                           reads/writes C++ variables; if it returns a value operator< wraps it so that the value
                           is pushed on the result stack
     APopUser V id f     action_expression / capture_expression::do_epilogue_inlined (ONE action):
                           pop_attribute_frame(f); then the user callable
     ACollectStart       collect_expression: envr.start_attribute_collection()
     ACollectFinish m mk collect_expression::build_collection: finish_attribute_collection(m) (checked), the
                           collected results (those pushed since the mark, oldest first) become a container,
                           the stack is cut back to the mark and the container is pushed
     ASynth n mk         synthesize_expression::build: tail_attribute_collection(n) (checked), T(args...) from
                           the last n results (oldest first), which are removed, then T is pushed

   Values.  C++ attribute values are typed (long, std::vector<long>, user structs); the model uses one
   universal domain: integers and lists of values (containers and synthesized objects are lists).  The
   any_cast type checks of lug cannot fail for a grammar that the C++ compiler accepted and whose stack
   discipline is right, so they are not modelled; every *checked pop* is (None = attribute_stack_error). *)
From Coq Require Import ZArith List Bool Arith.
Import ListNotations.

Inductive value : Type :=
| VInt (z : Z)
| VList (l : list value).

Definition var := nat.
Definition venv := var -> value.

Definition upd (e : venv) (x : var) (v : value) : venv :=
  fun y => if Nat.eqb y x then v else e y.

Record astate : Type := mkSt {
  vars : venv;                      (* the C++ variables the grammar's actions refer to *)
  frames : list (list value);       (* attribute_frame_stack_, head = top; one saved tuple per entry *)
  results : list value;             (* attribute_result_stack_, head = top *)
  marks : list nat                  (* attribute_collection_stack_, head = top; result stack sizes *)
}.

(* a user callable: new values of the variables and, if it returns a value, that value *)
Definition uact := venv -> venv * option value.

Inductive aop : Type :=
| APushFrame (V : list var)
| APopFrame (V : list var)
| AAssign (x : var)
| APopAssign (V : list var) (x : var)
| AUser (id : nat) (f : uact)
| APopUser (V : list var) (id : nat) (f : uact)
| ACollectStart
| ACollectFinish (mult : nat) (mk : list value -> value)
| ASynth (n : nat) (mk : list value -> value).

(* `frame = saved_tuple`: std::tuple assignment, element by element from index 0; None if the saved tuple
   has another arity (in C++: another type, the any_cast fails) *)
Fixpoint write_frame (V : list var) (vals : list value) (e : venv) : option venv :=
  match V, vals with
  | [], [] => Some e
  | x :: V', v :: vals' => write_frame V' vals' (upd e x v)
  | _, _ => None
  end.

Definition push_opt (r : option value) (rs : list value) : list value :=
  match r with Some v => v :: rs | None => rs end.

Definition obind {A B : Type} (o : option A) (f : A -> option B) : option B :=
  match o with Some a => f a | None => None end.

Definition step_push_frame (V : list var) (st : astate) : astate :=
  mkSt (vars st) (map (vars st) V :: frames st) (results st) (marks st).

Definition step_pop_frame (V : list var) (st : astate) : option astate :=
  match frames st with
  | [] => None
  | f :: fs => match write_frame V f (vars st) with
               | None => None
               | Some e => Some (mkSt e fs (results st) (marks st))
               end
  end.

Definition step_assign (x : var) (st : astate) : option astate :=
  match results st with
  | [] => None
  | v :: rs => Some (mkSt (upd (vars st) x v) (frames st) rs (marks st))
  end.

Definition step_user (f : uact) (st : astate) : astate :=
  let er := f (vars st) in
  mkSt (fst er) (frames st) (push_opt (snd er) (results st)) (marks st).

Definition step (op : aop) (st : astate) : option astate :=
  match op with
  | APushFrame V => Some (step_push_frame V st)
  | APopFrame V => step_pop_frame V st
  | AAssign x => step_assign x st
  | APopAssign V x => obind (step_pop_frame V st) (step_assign x)
  | AUser _ f => Some (step_user f st)
  | APopUser V _ f => obind (step_pop_frame V st) (fun st1 => Some (step_user f st1))
  | ACollectStart => Some (mkSt (vars st) (frames st) (results st) (length (results st) :: marks st))
  | ACollectFinish mult mk =>
      match marks st with
      | [] => None
      | i :: ms =>
          let n := length (results st) in
          if (n <? i) || (mult =? 0) || negb ((n - i) mod mult =? 0) then None
          else Some (mkSt (vars st) (frames st)
                          (mk (rev (firstn (n - i) (results st))) :: skipn (n - i) (results st)) ms)
      end
  | ASynth n mk =>
      if length (results st) <? n then None
      else Some (mkSt (vars st) (frames st) (mk (rev (firstn n (results st))) :: skipn n (results st)) (marks st))
  end.

Fixpoint exec (ops : list aop) (st : astate) : option astate :=
  match ops with
  | [] => Some st
  | op :: rest => match step op st with
                  | None => None
                  | Some st' => exec rest st'
                  end
  end.

(* what the instrumented user callables of cpp/attrdrv.cpp log: (id, result stack size, frame stack size)
   at the moment the user callable starts (for the inlined epilogue: after the frame has been popped) *)
Definition obs := (nat * nat * nat)%type.

Definition observe (op : aop) (st : astate) : list obs :=
  match op with
  | AUser id _ => [(id, length (results st), length (frames st))]
  | APopUser _ id _ => [(id, length (results st), pred (length (frames st)))]
  | _ => []
  end.

Fixpoint exec_obs (ops : list aop) (st : astate) : list obs * option astate :=
  match ops with
  | [] => ([], Some st)
  | op :: rest => match step op st with
                  | None => ([], None)
                  | Some st' => let r := exec_obs rest st' in (observe op st ++ fst r, snd r)
                  end
  end.
