(* C07 -- proofs of the statements of Attr/AttrSpec.v. *)
From Coq Require Import ZArith List Bool Arith Lia.
From Lug Require Import Attr.AttrModel Attr.AttrSpec.
Import ListNotations.

(* ------------------------------------------------------------------ basic facts *)

Lemma exec_app : forall a b st, exec (a ++ b) st = obind (exec a st) (exec b).
Proof.
  induction a as [|op a IHa]; intros b st; cbn [app exec obind].
  - reflexivity.
  - destruct (step op st) as [st1|]; cbn [obind]; [apply IHa | reflexivity].
Qed.

Lemma fdepth_app : forall a b d, fdepth (a ++ b) d = obind (fdepth a d) (fdepth b).
Proof.
  induction a as [|op a IHa]; intros b d; cbn [app fdepth obind].
  - reflexivity.
  - destruct op; try apply IHa; destruct d as [|d0]; cbn [obind]; try reflexivity; apply IHa.
Qed.

Lemma upd_same : forall e x v, upd e x v x = v.
Proof. intros e x v. unfold upd. rewrite Nat.eqb_refl. reflexivity. Qed.

Lemma upd_other : forall e x v y, y <> x -> upd e x v y = e y.
Proof. intros e x v y Hne. unfold upd. destruct (Nat.eqb_spec y x) as [Heq|_]; [contradiction | reflexivity]. Qed.

(* restoring a saved frame: total, the variables of V get the saved values, the others are not touched *)
Lemma write_frame_saved : forall V e0 e,
  exists e', write_frame V (map e0 V) e = Some e' /\
             (forall x, In x V -> e' x = e0 x) /\
             (forall x, ~ In x V -> e' x = e x).
Proof.
  induction V as [|x V IHV]; intros e0 e; cbn [map write_frame].
  - exists e. split; [reflexivity|]. split; [intros y [] | reflexivity].
  - destruct (IHV e0 (upd e x (e0 x))) as (e' & Hw & Hin & Hout).
    exists e'. split; [exact Hw|]. split.
    + intros y Hy. destruct (in_dec Nat.eq_dec y V) as [HyV|HyV].
      * apply Hin; exact HyV.
      * destruct Hy as [Hy|Hy]; [|contradiction]. subst y.
        rewrite (Hout x HyV). apply upd_same.
    + intros y Hy. cbn [In] in Hy.
      assert (HyV : ~ In y V) by tauto. assert (Hne : y <> x) by (intro; subst; tauto).
      rewrite (Hout y HyV). apply upd_other; exact Hne.
Qed.

Lemma step_pop_frame_inv : forall V st st1,
  step_pop_frame V st = Some st1 ->
  exists f, frames st = f :: frames st1 /\ write_frame V f (vars st) = Some (vars st1) /\
            results st1 = results st /\ marks st1 = marks st.
Proof.
  intros V st st1 H. unfold step_pop_frame in H.
  destruct (frames st) as [|f fs] eqn:Hf; [discriminate H|].
  destruct (write_frame V f (vars st)) as [e|] eqn:Hw; [|discriminate H].
  injection H as <-. exists f. cbn. auto.
Qed.

Lemma step_assign_inv : forall x st st1,
  step_assign x st = Some st1 ->
  exists v, results st = v :: results st1 /\ vars st1 = upd (vars st) x v /\
            frames st1 = frames st /\ marks st1 = marks st.
Proof.
  intros x st st1 H. unfold step_assign in H.
  destruct (results st) as [|v rs] eqn:Hr; [discriminate H|].
  injection H as <-. exists v. cbn. auto.
Qed.

(* the effect of one action on the frame stack *)
Lemma step_frames : forall op st st1,
  step op st = Some st1 ->
  match op with
  | APushFrame V => frames st1 = map (vars st) V :: frames st
  | APopFrame _ | APopAssign _ _ | APopUser _ _ _ => exists f, frames st = f :: frames st1
  | _ => frames st1 = frames st
  end.
Proof.
  intros op st st1 H. destruct op; cbn [step] in H.
  - injection H as <-. reflexivity.
  - destruct (step_pop_frame_inv _ _ _ H) as (f & Hf & _). exists f; exact Hf.
  - destruct (step_assign_inv _ _ _ H) as (v & _ & _ & Hf & _). exact Hf.
  - destruct (step_pop_frame V st) as [st0|] eqn:Hp; [|discriminate H]. cbn [obind] in H.
    destruct (step_pop_frame_inv _ _ _ Hp) as (f & Hf & _).
    destruct (step_assign_inv _ _ _ H) as (v & _ & _ & Hf1 & _).
    exists f. rewrite Hf1. exact Hf.
  - injection H as <-. reflexivity.
  - destruct (step_pop_frame V st) as [st0|] eqn:Hp; [|discriminate H]. cbn [obind] in H.
    destruct (step_pop_frame_inv _ _ _ Hp) as (f0 & Hf & _).
    injection H as <-. exists f0. exact Hf.
  - injection H as <-. reflexivity.
  - destruct (marks st) as [|i ms]; [discriminate H|].
    destruct ((length (results st) <? i) || (mult =? 0) || negb ((length (results st) - i) mod mult =? 0)); [discriminate H|].
    injection H as <-. reflexivity.
  - destruct (length (results st) <? n); [discriminate H|]. injection H as <-. reflexivity.
Qed.

(* a sequence whose relative frame depth goes from d to d' replaces the d frames on top by d' frames and
   leaves everything below alone *)
Lemma fdepth_exec_frames : forall body d d' st st' pre F,
  fdepth body d = Some d' -> exec body st = Some st' ->
  frames st = pre ++ F -> length pre = d ->
  exists pre', frames st' = pre' ++ F /\ length pre' = d'.
Proof.
  induction body as [|op body IH]; intros d d' st st' pre F Hd He Hf Hl.
  - cbn in Hd, He. injection Hd as <-. injection He as <-. exists pre. auto.
  - cbn [exec] in He. destruct (step op st) as [st1|] eqn:Hs; [|discriminate He].
    pose proof (step_frames _ _ _ Hs) as Hfr.
    destruct op; cbn [fdepth] in Hd;
      try (apply (IH d d' st1 st' pre F Hd He); [rewrite Hfr; exact Hf | exact Hl]).
    + apply (IH (S d) d' st1 st' (map (vars st) V :: pre) F Hd He).
      * rewrite Hfr, Hf. reflexivity.
      * cbn [length]. rewrite Hl. reflexivity.
    + destruct d as [|d0]; [discriminate Hd|]. destruct Hfr as (f & Hfr).
      destruct pre as [|p pre0]; [discriminate Hl|].
      apply (IH d0 d' st1 st' pre0 F Hd He).
      * rewrite Hf in Hfr. cbn [app] in Hfr. injection Hfr as _ Hfr. symmetry; exact Hfr.
      * cbn [length] in Hl. lia.
    + destruct d as [|d0]; [discriminate Hd|]. destruct Hfr as (f & Hfr).
      destruct pre as [|p pre0]; [discriminate Hl|].
      apply (IH d0 d' st1 st' pre0 F Hd He).
      * rewrite Hf in Hfr. cbn [app] in Hfr. injection Hfr as _ Hfr. symmetry; exact Hfr.
      * cbn [length] in Hl. lia.
    + destruct d as [|d0]; [discriminate Hd|]. destruct Hfr as (f0 & Hfr).
      destruct pre as [|p pre0]; [discriminate Hl|].
      apply (IH d0 d' st1 st' pre0 F Hd He).
      * rewrite Hf in Hfr. cbn [app] in Hfr. injection Hfr as _ Hfr. symmetry; exact Hfr.
      * cbn [length] in Hl. lia.
Qed.

Lemma C07_balanced_preserves_frames_proof : stmt_C07_balanced_preserves_frames.
Proof.
  intros body st st' Hb He.
  destruct (fdepth_exec_frames body 0 0 st st' [] (frames st) Hb He eq_refl eq_refl) as (pre' & Hf & Hl).
  destruct pre' as [|p pre']; [exact Hf | discriminate Hl].
Qed.

(* ------------------------------------------------------------------ (a) frame locality *)

Lemma exec_bracket_split : forall V body st st',
  exec (APushFrame V :: body ++ [APopFrame V]) st = Some st' ->
  exists st2, exec body (step_push_frame V st) = Some st2 /\ step_pop_frame V st2 = Some st'.
Proof.
  intros V body st st' H. cbn [exec step] in H. rewrite exec_app in H.
  destruct (exec body (step_push_frame V st)) as [st2|]; [|discriminate H].
  cbn [obind exec step] in H. exists st2. split; [reflexivity|].
  destruct (step_pop_frame V st2) as [st3|]; [exact H | discriminate H].
Qed.

Lemma C07_frame_locality_proof : stmt_C07_frame_locality.
Proof.
  intros V body st st' Hb He.
  destruct (exec_bracket_split _ _ _ _ He) as (st2 & Hbody & Hpop).
  pose proof (C07_balanced_preserves_frames_proof body _ st2 Hb Hbody) as Hfr2.
  cbn [step_push_frame frames] in Hfr2.
  destruct (step_pop_frame_inv _ _ _ Hpop) as (f & Hf & Hw & Hr & Hm).
  rewrite Hfr2 in Hf. injection Hf as Hf1 Hf2. subst f.
  destruct (write_frame_saved V (vars st) (vars st2)) as (e' & Hw' & Hin & Hout).
  rewrite Hw in Hw'. injection Hw' as <-.
  split; [exact Hin|]. split; [symmetry; exact Hf2|].
  exists st2. auto.
Qed.

Lemma C07_frame_bracket_total_proof : stmt_C07_frame_bracket_total.
Proof.
  intros V body st st2 Hb Hbody.
  pose proof (C07_balanced_preserves_frames_proof body _ st2 Hb Hbody) as Hfr2.
  cbn [step_push_frame frames] in Hfr2.
  destruct (write_frame_saved V (vars st) (vars st2)) as (e' & Hw' & _ & _).
  exists (mkSt e' (frames st) (results st2) (marks st2)).
  cbn [exec step]. rewrite exec_app, Hbody. cbn [obind exec step].
  unfold step_pop_frame. rewrite Hfr2, Hw'. reflexivity.
Qed.

(* the form in which the two theorems are used below *)
Lemma bracket_core : forall V body st st2,
  balanced body -> exec body (step_push_frame V st) = Some st2 ->
  exists st3, step_pop_frame V st2 = Some st3 /\
              (forall y, In y V -> vars st3 y = vars st y) /\
              (forall y, ~ In y V -> vars st3 y = vars st2 y) /\
              frames st3 = frames st /\ results st3 = results st2 /\ marks st3 = marks st2.
Proof.
  intros V body st st2 Hb Hbody.
  destruct (C07_frame_bracket_total_proof V body st st2 Hb Hbody) as (st3 & He).
  destruct (C07_frame_locality_proof V body st st3 Hb He) as (Hin & Hfr & st2' & Hbody' & Hout & Hr & Hm).
  rewrite Hbody in Hbody'. injection Hbody' as <-.
  destruct (exec_bracket_split _ _ _ _ He) as (st2'' & Hbody'' & Hpop).
  rewrite Hbody in Hbody''. injection Hbody'' as <-.
  exists st3. auto 10.
Qed.

(* ------------------------------------------------------------------ (b) result stack *)

Fixpoint apply_evs (evs : list sev) (s : list value) : option (list value) :=
  match evs with
  | [] => Some s
  | EvPush v :: rest => apply_evs rest (v :: s)
  | EvPop n :: rest => if n <=? length s then apply_evs rest (skipn n s) else None
  end.

Lemma apply_evs_app : forall a b s, apply_evs (a ++ b) s = obind (apply_evs a s) (apply_evs b).
Proof.
  induction a as [|ev a IHa]; intros b s; cbn [app apply_evs obind].
  - reflexivity.
  - destruct ev as [v|n]; [apply IHa|]. destruct (n <=? length s); [apply IHa | reflexivity].
Qed.

Lemma user_events_apply : forall f e s,
  apply_evs (user_events f e) s = Some (push_opt (snd (f e)) s).
Proof. intros f e s. unfold user_events. destruct (snd (f e)); reflexivity. Qed.

Lemma step_events : forall op st st1,
  step op st = Some st1 -> apply_evs (op_events op st) (results st) = Some (results st1).
Proof.
  intros op st st1 H. destruct op; cbn [step] in H; cbn [op_events].
  - injection H as <-. reflexivity.
  - destruct (step_pop_frame_inv _ _ _ H) as (f & _ & _ & Hr & _). rewrite Hr. reflexivity.
  - destruct (step_assign_inv _ _ _ H) as (v & Hr & _). rewrite Hr. reflexivity.
  - destruct (step_pop_frame V st) as [st0|] eqn:Hp; [|discriminate H]. cbn [obind] in H.
    destruct (step_pop_frame_inv _ _ _ Hp) as (f & _ & _ & Hr0 & _).
    destruct (step_assign_inv _ _ _ H) as (v & Hr & _). rewrite <- Hr0, Hr. reflexivity.
  - injection H as <-. cbn [step_user results]. apply user_events_apply.
  - destruct (step_pop_frame V st) as [st0|] eqn:Hp; [|discriminate H]. cbn [obind] in H.
    destruct (step_pop_frame_inv _ _ _ Hp) as (f0 & _ & _ & Hr0 & _).
    injection H as <-. cbn [step_user results]. rewrite Hr0. apply user_events_apply.
  - injection H as <-. reflexivity.
  - destruct (marks st) as [|i ms]; [discriminate H|].
    destruct ((length (results st) <? i) || (mult =? 0) || negb ((length (results st) - i) mod mult =? 0)); [discriminate H|].
    injection H as <-. cbn [apply_evs results].
    destruct (Nat.leb_spec (length (results st) - i) (length (results st))) as [_|Hlt]; [reflexivity | lia].
  - destruct (Nat.ltb_spec (length (results st)) n) as [Hlt|Hge]; [discriminate H|].
    injection H as <-. cbn [apply_evs results].
    destruct (Nat.leb_spec n (length (results st))) as [_|Hlt]; [reflexivity | lia].
Qed.

Lemma exec_events : forall ops st st',
  exec ops st = Some st' -> apply_evs (events ops st) (results st) = Some (results st').
Proof.
  induction ops as [|op ops IH]; intros st st' H; cbn [exec events] in *.
  - injection H as <-. reflexivity.
  - destruct (step op st) as [st1|] eqn:Hs; [|discriminate H].
    rewrite apply_evs_app, (step_events _ _ _ Hs). cbn [obind]. apply IH; exact H.
Qed.

Lemma skipn_skipn' : forall (A : Type) (x y : nat) (l : list A), skipn x (skipn y l) = skipn (y + x) l.
Proof.
  intros A x y. induction y as [|y IHy]; intros l; cbn [skipn plus].
  - reflexivity.
  - destruct l as [|a l]; [rewrite skipn_nil; reflexivity | apply IHy].
Qed.

Lemma net_apply : forall evs k out R0 R',
  k <= length R0 ->
  apply_evs evs (out ++ skipn k R0) = Some R' ->
  fst (net evs k out) <= length R0 /\ R' = snd (net evs k out) ++ skipn (fst (net evs k out)) R0.
Proof.
  induction evs as [|ev evs IH]; intros k out R0 R' Hk Ha; cbn [apply_evs net] in *.
  - injection Ha as <-. cbn [fst snd]. auto.
  - destruct ev as [v|n].
    + apply (IH k (v :: out) R0 R' Hk). exact Ha.
    + destruct (Nat.leb_spec n (length (out ++ skipn k R0))) as [Hle|_]; [|discriminate Ha].
      rewrite app_length, skipn_length in Hle.
      rewrite skipn_app, skipn_skipn' in Ha.
      apply (IH (k + (n - length out)) (skipn n out) R0 R'); [lia | exact Ha].
Qed.

Lemma C07_stack_exact_proof : stmt_C07_stack_exact.
Proof.
  intros ops st st' He.
  apply (net_apply (events ops st) 0 [] (results st) (results st')); [lia|].
  cbn [skipn app]. apply exec_events; exact He.
Qed.

Lemma step_deepen : forall base op st st1,
  step op st = Some st1 -> step op (deepen base st) = Some (deepen base st1).
Proof.
  intros base op st st1 H.
  assert (Hpop : forall V s s1, step_pop_frame V s = Some s1 -> step_pop_frame V (deepen base s) = Some (deepen base s1)).
  { intros V s s1 Hp. unfold step_pop_frame in *. cbn [deepen frames vars].
    destruct (frames s) as [|f fs]; [discriminate Hp|].
    destruct (write_frame V f (vars s)) as [e|]; [|discriminate Hp].
    injection Hp as <-. reflexivity. }
  assert (Hasg : forall x s s1, step_assign x s = Some s1 -> step_assign x (deepen base s) = Some (deepen base s1)).
  { intros x s s1 Ha. unfold step_assign in *. cbn [deepen results].
    destruct (results s) as [|v rs]; [discriminate Ha|].
    injection Ha as <-. reflexivity. }
  assert (Husr : forall f s, step_user f (deepen base s) = deepen base (step_user f s)).
  { intros f s. unfold step_user, deepen. cbn [vars frames results marks].
    destruct (snd (f (vars s))); reflexivity. }
  destruct op; cbn [step] in *.
  - injection H as <-. reflexivity.
  - apply Hpop; exact H.
  - apply Hasg; exact H.
  - destruct (step_pop_frame V st) as [st0|] eqn:Hp; [|discriminate H]. cbn [obind] in H.
    rewrite (Hpop _ _ _ Hp). cbn [obind]. apply Hasg; exact H.
  - injection H as <-. rewrite Husr. reflexivity.
  - destruct (step_pop_frame V st) as [st0|] eqn:Hp; [|discriminate H]. cbn [obind] in H.
    injection H as <-. rewrite (Hpop _ _ _ Hp). cbn [obind]. rewrite Husr. reflexivity.
  - injection H as <-. unfold deepen. cbn [vars frames results marks map]. rewrite app_length. reflexivity.
  - cbn [deepen marks results vars frames].
    destruct (marks st) as [|i ms]; [discriminate H|]. cbn [map].
    rewrite app_length.
    replace (length (results st) + length base <? i + length base) with (length (results st) <? i)
      by (destruct (Nat.ltb_spec (length (results st)) i), (Nat.ltb_spec (length (results st) + length base) (i + length base)); (reflexivity || lia)).
    replace (length (results st) + length base - (i + length base)) with (length (results st) - i) by lia.
    destruct ((length (results st) <? i) || (mult =? 0) || negb ((length (results st) - i) mod mult =? 0)); [discriminate H|].
    injection H as <-. unfold deepen. cbn [vars frames results marks].
    rewrite firstn_app, skipn_app.
    replace (length (results st) - i - length (results st)) with 0 by lia.
    cbn [firstn skipn]. rewrite app_nil_r. reflexivity.
  - cbn [deepen marks results vars frames]. rewrite app_length.
    destruct (Nat.ltb_spec (length (results st)) n) as [Hlt|Hge]; [discriminate H|].
    destruct (Nat.ltb_spec (length (results st) + length base) n) as [Hlt'|_]; [lia|].
    injection H as <-. unfold deepen. cbn [vars frames results marks].
    rewrite firstn_app, skipn_app.
    replace (n - length (results st)) with 0 by lia.
    cbn [firstn skipn]. rewrite app_nil_r. reflexivity.
Qed.

Lemma C07_stack_base_untouched_proof : stmt_C07_stack_base_untouched.
Proof.
  intros ops base. induction ops as [|op ops IH]; intros st st' H; cbn [exec] in *.
  - injection H as <-. reflexivity.
  - destruct (step op st) as [st1|] eqn:Hs; [|discriminate H].
    rewrite (step_deepen base _ _ _ Hs). apply IH; exact H.
Qed.

Lemma exec_obs_exec_proof : stmt_exec_obs_exec.
Proof.
  intros ops. induction ops as [|op ops IH]; intros st; cbn [exec_obs exec].
  - reflexivity.
  - destruct (step op st) as [st1|]; [|reflexivity]. cbn [snd]. apply IH.
Qed.

(* ------------------------------------------------------------------ (c) a small program logic *)

Definition post (ops : list aop) (st : astate) (Q : astate -> Prop) : Prop :=
  exists st', exec ops st = Some st' /\ Q st'.

Lemma post_nil : forall st (Q : astate -> Prop), Q st -> post [] st Q.
Proof. intros st Q H. exists st. split; [reflexivity | exact H]. Qed.

Lemma post_cons : forall op rest st st1 Q,
  step op st = Some st1 -> post rest st1 Q -> post (op :: rest) st Q.
Proof.
  intros op rest st st1 Q Hs (st' & He & HQ). exists st'. split; [|exact HQ].
  cbn [exec]. rewrite Hs. exact He.
Qed.

Lemma post_app : forall a b st Q, post a st (fun st1 => post b st1 Q) -> post (a ++ b) st Q.
Proof.
  intros a b st Q (st1 & Ha & st' & Hb & HQ). exists st'. split; [|exact HQ].
  rewrite exec_app, Ha. exact Hb.
Qed.

Lemma post_conseq : forall ops st (Q Q' : astate -> Prop),
  post ops st Q -> (forall s, Q s -> Q' s) -> post ops st Q'.
Proof. intros ops st Q Q' (st' & He & HQ) Himp. exists st'. split; [exact He | apply Himp; exact HQ]. Qed.

Lemma post_user : forall id f rest st Q,
  post rest (step_user f st) Q -> post (AUser id f :: rest) st Q.
Proof. intros id f rest st Q H. apply (post_cons _ _ _ (step_user f st)); [reflexivity | exact H]. Qed.

Lemma post_assign : forall x rest st v rs Q,
  results st = v :: rs ->
  post rest (mkSt (upd (vars st) x v) (frames st) rs (marks st)) Q -> post (AAssign x :: rest) st Q.
Proof.
  intros x rest st v rs Q Hr H. eapply post_cons; [|exact H].
  cbn [step]. unfold step_assign. rewrite Hr. reflexivity.
Qed.

(* push V; body; pop V -- the three forms the encoder emits.  All three rest on C07_frame_locality (via
   bracket_core): the continuation only learns that the variables of V are what they were before the push. *)
Lemma post_bracket_pop : forall V body rest st Q,
  balanced body ->
  post body (step_push_frame V st) (fun st2 =>
    forall st3, (forall y, In y V -> vars st3 y = vars st y) ->
                (forall y, ~ In y V -> vars st3 y = vars st2 y) ->
                frames st3 = frames st -> results st3 = results st2 -> marks st3 = marks st2 ->
                post rest st3 Q) ->
  post (APushFrame V :: body ++ APopFrame V :: rest) st Q.
Proof.
  intros V body rest st Q Hb (st2 & Hbody & Hk).
  destruct (bracket_core V body st st2 Hb Hbody) as (st3 & Hpop & Hin & Hout & Hf & Hr & Hm).
  destruct (Hk st3 Hin Hout Hf Hr Hm) as (st' & He & HQ).
  exists st'. split; [|exact HQ].
  cbn [exec step]. rewrite exec_app, Hbody. cbn [obind exec step]. rewrite Hpop. exact He.
Qed.

Lemma post_bracket_popassign : forall V x body rest st Q,
  balanced body ->
  post body (step_push_frame V st) (fun st2 =>
    exists v rs, results st2 = v :: rs /\
    forall st3, vars st3 x = v ->
                (forall y, y <> x -> In y V -> vars st3 y = vars st y) ->
                (forall y, y <> x -> ~ In y V -> vars st3 y = vars st2 y) ->
                frames st3 = frames st -> results st3 = rs -> marks st3 = marks st2 ->
                post rest st3 Q) ->
  post (APushFrame V :: body ++ APopAssign V x :: rest) st Q.
Proof.
  intros V x body rest st Q Hb (st2 & Hbody & v & rs & Hres & Hk).
  destruct (bracket_core V body st st2 Hb Hbody) as (st3 & Hpop & Hin & Hout & Hf & Hr & Hm).
  set (st4 := mkSt (upd (vars st3) x v) (frames st3) rs (marks st3)).
  destruct (Hk st4) as (st' & He & HQ).
  - apply upd_same.
  - intros y Hne Hy. cbn [st4 vars]. rewrite upd_other by exact Hne. apply Hin; exact Hy.
  - intros y Hne Hy. cbn [st4 vars]. rewrite upd_other by exact Hne. apply Hout; exact Hy.
  - exact Hf.
  - reflexivity.
  - exact Hm.
  - exists st'. split; [|exact HQ].
    cbn [exec step]. rewrite exec_app, Hbody. cbn [obind exec step]. rewrite Hpop. cbn [obind].
    unfold step_assign. rewrite Hr, Hres. exact He.
Qed.

Lemma post_bracket_popuser : forall V id f body rest st Q,
  balanced body ->
  post body (step_push_frame V st) (fun st2 =>
    forall st3, (forall y, In y V -> vars st3 y = vars st y) ->
                (forall y, ~ In y V -> vars st3 y = vars st2 y) ->
                frames st3 = frames st -> results st3 = results st2 -> marks st3 = marks st2 ->
                post rest (step_user f st3) Q) ->
  post (APushFrame V :: body ++ APopUser V id f :: rest) st Q.
Proof.
  intros V id f body rest st Q Hb (st2 & Hbody & Hk).
  destruct (bracket_core V body st st2 Hb Hbody) as (st3 & Hpop & Hin & Hout & Hf & Hr & Hm).
  destruct (Hk st3 Hin Hout Hf Hr Hm) as (st' & He & HQ).
  exists st'. split; [|exact HQ].
  cbn [exec step]. rewrite exec_app, Hbody. cbn [obind exec step]. rewrite Hpop. cbn [obind]. exact He.
Qed.

Ltac simp_st := cbn [vars frames results marks step_user step_push_frame u_ret u_push u_bin u_copy u_nest fst snd push_opt].
Ltac simp_in H := cbn [vars frames results marks step_user step_push_frame u_ret u_push u_bin u_copy u_nest fst snd push_opt] in H.

(* ------------------------------------------------------------------ chain *)

Lemma chain_balanced : forall t d, fdepth (opsKb t) d = Some d.
Proof.
  induction t as [z|z t IHt]; intros d; cbn [opsKb fdepth].
  - reflexivity.
  - rewrite fdepth_app, IHt. reflexivity.
Qed.

Lemma chain_body : forall t st,
  post (opsKb t) st (fun st' =>
    vars st' k_acc = VInt (evK t) /\ results st' = results st /\ frames st' = frames st /\
    marks st' = marks st /\ (forall x, 1 < x -> vars st' x = vars st x)).
Proof.
  induction t as [z|z t IHt]; intros st; cbn [opsKb evK].
  - apply post_user. eapply post_assign; [reflexivity|]. apply post_user. apply post_nil.
    cbn. repeat split; try reflexivity.
    intros x Hx. unfold k_acc, k_c. rewrite !upd_other by lia. reflexivity.
  - apply post_user. eapply post_assign; [reflexivity|].
    apply post_bracket_popuser; [apply chain_balanced|].
    eapply post_conseq; [apply IHt|].
    intros st2 (Hacc & Hr & Hf & Hm & Hx) st3 Hin Hout Hf3 Hr3 Hm3.
    apply post_nil.
    assert (Hc : vars st3 k_c = VInt z).
    { rewrite Hin by (left; reflexivity). cbn. reflexivity. }
    assert (Ha : vars st3 k_acc = VInt (evK t)).
    { rewrite Hout by (cbn; unfold k_acc, k_c; lia). exact Hacc. }
    cbn [step_user u_bin vars frames results marks fst snd push_opt].
    split; [rewrite upd_same, Ha, Hc; reflexivity|].
    split; [rewrite Hr3, Hr; reflexivity|].
    split; [rewrite Hf3; reflexivity|].
    split; [rewrite Hm3, Hm; reflexivity|].
    intros x H1. rewrite upd_other by (unfold k_acc; lia).
    rewrite Hout by (cbn; unfold k_c; lia). rewrite Hx by exact H1.
    cbn. unfold k_c. rewrite upd_other by lia. reflexivity.
Qed.

Lemma C07_chain_proof : stmt_C07_chain.
Proof.
  intros t st. unfold opsK. apply post_app.
  eapply post_conseq; [apply chain_body|].
  intros st1 (Hacc & Hr & Hf & Hm & Hx). apply post_user. apply post_nil.
  cbn. rewrite Hacc, Hr. auto.
Qed.

(* ------------------------------------------------------------------ mirror *)

Lemma post_synth : forall n mk rest st args rs Q,
  results st = rev args ++ rs -> length args = n ->
  post rest (mkSt (vars st) (frames st) (mk args :: rs) (marks st)) Q ->
  post (ASynth n mk :: rest) st Q.
Proof.
  intros n mk rest st args rs Q Hr Hl H. eapply post_cons; [|exact H].
  cbn [step]. rewrite Hr.
  assert (Hlen : length (rev args) = n) by (rewrite rev_length; exact Hl).
  destruct (Nat.ltb_spec (length (rev args ++ rs)) n) as [Hlt|_]; [rewrite app_length in Hlt; lia|].
  rewrite firstn_app, skipn_app, Hlen, Nat.sub_diag. cbn [firstn skipn].
  rewrite <- Hlen, firstn_all, skipn_all, app_nil_r, rev_involutive. reflexivity.
Qed.

Lemma mirror_balanced : forall t d, fdepth (opsM t) d = Some d.
Proof.
  induction t as [z|a IHa b IHb]; intros d; cbn [opsM fdepth].
  - reflexivity.
  - rewrite fdepth_app, IHa. cbn [obind fdepth]. rewrite fdepth_app, IHb. reflexivity.
Qed.

Lemma C07_mirror_proof : stmt_C07_mirror.
Proof.
  intros t. induction t as [z|a IHa b IHb]; intros st; cbn [opsM evM].
  - apply post_user. apply (post_synth 1 VList [] _ [VInt z] (results st)); [reflexivity | reflexivity|].
    apply post_nil. cbn. auto.
  - apply post_app. eapply post_conseq; [apply IHa|].
    intros st1 (Hr1 & Hf1 & Hm1 & Hx1).
    eapply post_assign; [exact Hr1|].
    apply post_bracket_popassign; [apply mirror_balanced|].
    eapply post_conseq; [apply IHb|].
    intros st2 (Hr2 & Hf2 & Hm2 & Hx2).
    exists (evM b), (results st). split; [exact Hr2|].
    intros st3 Hb Hin Hout Hf3 Hr3 Hm3.
    assert (Ha : vars st3 m_a = evM a).
    { rewrite Hin; [|unfold m_a, m_b; lia|left; reflexivity]. cbn. reflexivity. }
    apply post_user. apply post_user.
    apply (post_synth 2 VList [] _ [evM b; evM a] (results st)).
    + cbn. rewrite Ha, Hb, Hr3. reflexivity.
    + reflexivity.
    + apply post_nil. cbn.
      split; [reflexivity|]. split; [rewrite Hf3; cbn; exact Hf1|]. split; [rewrite Hm3, Hm2; cbn; exact Hm1|].
      intros x H1. rewrite Hout; [|unfold m_b; lia|cbn; unfold m_a; lia].
      rewrite Hx2 by exact H1. cbn. rewrite upd_other by (unfold m_a; lia). apply Hx1; exact H1.
Qed.

(* ------------------------------------------------------------------ calc *)

Scheme cexpr_mind := Induction for cexpr Sort Prop
with cterm_mind := Induction for cterm Sort Prop
with cfac_mind := Induction for cfac Sort Prop.
Combined Scheme calc_mutind from cexpr_mind, cterm_mind, cfac_mind.

Lemma calc_balanced :
  (forall e d, fdepth (opsEb e) d = Some d) /\
  (forall t d, fdepth (opsTb t) d = Some d) /\
  (forall f d, fdepth (opsF f) d = Some d).
Proof.
  apply calc_mutind.
  - intros t IHt d. cbn [opsEb]. rewrite !fdepth_app, IHt. reflexivity.
  - intros e IHe t IHt d. cbn [opsEb]. rewrite fdepth_app, IHe. cbn [obind fdepth].
    rewrite !fdepth_app, IHt. reflexivity.
  - intros e IHe t IHt d. cbn [opsEb]. rewrite fdepth_app, IHe. cbn [obind fdepth].
    rewrite !fdepth_app, IHt. reflexivity.
  - intros f IHf d. cbn [opsTb]. rewrite fdepth_app, IHf. reflexivity.
  - intros t IHt f IHf d. cbn [opsTb]. rewrite fdepth_app, IHt. cbn [obind fdepth].
    rewrite fdepth_app, IHf. reflexivity.
  - intros k d. reflexivity.
  - intros e IHe d. cbn [opsF fdepth]. rewrite !fdepth_app, IHe. reflexivity.
Qed.

Definition calc_keeps (st s : astate) : Prop :=
  frames s = frames st /\ marks s = marks st /\ (forall y, 3 < y -> vars s y = vars st y).

Lemma ret_wrap : forall body id x z st,
  post body st (fun s => vars s x = VInt z /\ results s = results st /\ calc_keeps st s) ->
  post (body ++ [AUser id (u_ret x)]) st (fun s => results s = VInt z :: results st /\ calc_keeps st s).
Proof.
  intros body id x z st H. apply post_app. eapply post_conseq; [exact H|].
  intros s (Hx & Hr & Hk). apply post_user. apply post_nil.
  simp_st. rewrite Hx, Hr. split; [reflexivity | exact Hk].
Qed.

Lemma calc_main :
  (forall e st, post (opsEb e) st (fun s => vars s c_l = VInt (evE e) /\ results s = results st /\ calc_keeps st s)) /\
  (forall t st, post (opsTb t) st (fun s => vars s c_l = VInt (evT t) /\ results s = results st /\ calc_keeps st s)) /\
  (forall f st, post (opsF f) st (fun s => results s = VInt (evF f) :: results st /\ calc_keeps st s)).
Proof.
  apply calc_mutind.
  - (* CTerm *)
    intros t IHt st. cbn [opsEb evE]. apply post_app.
    eapply post_conseq; [apply ret_wrap, IHt|].
    intros s1 (Hr1 & Hf1 & Hm1 & Hx1).
    eapply post_assign; [exact Hr1|]. apply post_nil. simp_st.
    split; [apply upd_same|]. split; [reflexivity|]. split; [exact Hf1|]. split; [exact Hm1|].
    intros y Hy. simp_st. rewrite upd_other by (unfold c_l; lia). apply Hx1; exact Hy.
  - (* CAdd *)
    intros e IHe t IHt st. cbn [opsEb evE]. apply post_app.
    eapply post_conseq; [apply IHe|].
    intros s1 (Hl1 & Hr1 & Hf1 & Hm1 & Hx1).
    apply post_bracket_popassign.
    { unfold balanced. rewrite fdepth_app, (proj1 (proj2 calc_balanced)). reflexivity. }
    eapply post_conseq; [apply ret_wrap, IHt|].
    intros s2 (Hr2 & Hf2 & Hm2 & Hx2).
    exists (VInt (evT t)), (results s1). split; [exact Hr2|].
    intros s3 Hv Hin Hout Hf3 Hr3 Hm3.
    apply post_user. apply post_nil.
    assert (Hl3 : vars s3 c_l = VInt (evE e)).
    { rewrite Hin; [exact Hl1 | unfold c_l, c_r; lia | left; reflexivity]. }
    unfold calc_keeps; simp_st.
    split; [rewrite upd_same, Hl3, Hv; reflexivity|].
    split; [rewrite Hr3; exact Hr1|].
    split; [rewrite Hf3; exact Hf1|].
    split; [rewrite Hm3, Hm2; exact Hm1|].
    intros y Hy. simp_st. rewrite upd_other by (unfold c_l; lia).
    rewrite Hout; [|unfold c_r; lia|cbn; unfold c_l; lia].
    rewrite Hx2 by exact Hy. apply Hx1; exact Hy.
  - (* CSub *)
    intros e IHe t IHt st. cbn [opsEb evE]. apply post_app.
    eapply post_conseq; [apply IHe|].
    intros s1 (Hl1 & Hr1 & Hf1 & Hm1 & Hx1).
    apply post_bracket_popassign.
    { unfold balanced. rewrite fdepth_app, (proj1 (proj2 calc_balanced)). reflexivity. }
    eapply post_conseq; [apply ret_wrap, IHt|].
    intros s2 (Hr2 & Hf2 & Hm2 & Hx2).
    exists (VInt (evT t)), (results s1). split; [exact Hr2|].
    intros s3 Hv Hin Hout Hf3 Hr3 Hm3.
    apply post_user. apply post_nil.
    assert (Hl3 : vars s3 c_l = VInt (evE e)).
    { rewrite Hin; [exact Hl1 | unfold c_l, c_r; lia | left; reflexivity]. }
    unfold calc_keeps; simp_st.
    split; [rewrite upd_same, Hl3, Hv; reflexivity|].
    split; [rewrite Hr3; exact Hr1|].
    split; [rewrite Hf3; exact Hf1|].
    split; [rewrite Hm3, Hm2; exact Hm1|].
    intros y Hy. simp_st. rewrite upd_other by (unfold c_l; lia).
    rewrite Hout; [|unfold c_r; lia|cbn; unfold c_l, c_r; lia].
    rewrite Hx2 by exact Hy. apply Hx1; exact Hy.
  - (* CFac *)
    intros f IHf st. cbn [opsTb evT]. apply post_app.
    eapply post_conseq; [apply IHf|].
    intros s1 (Hr1 & Hf1 & Hm1 & Hx1).
    eapply post_assign; [exact Hr1|]. apply post_nil. simp_st.
    split; [apply upd_same|]. split; [reflexivity|]. split; [exact Hf1|]. split; [exact Hm1|].
    intros y Hy. simp_st. rewrite upd_other by (unfold c_l; lia). apply Hx1; exact Hy.
  - (* CMul *)
    intros t IHt f IHf st. cbn [opsTb evT]. apply post_app.
    eapply post_conseq; [apply IHt|].
    intros s1 (Hl1 & Hr1 & Hf1 & Hm1 & Hx1).
    apply post_bracket_popassign.
    { apply (proj2 (proj2 calc_balanced)). }
    eapply post_conseq; [apply IHf|].
    intros s2 (Hr2 & Hf2 & Hm2 & Hx2).
    exists (VInt (evF f)), (results s1). split; [exact Hr2|].
    intros s3 Hv Hin Hout Hf3 Hr3 Hm3.
    apply post_user. apply post_nil.
    assert (Hl3 : vars s3 c_l = VInt (evT t)).
    { rewrite Hin; [exact Hl1 | unfold c_l, c_r; lia | left; reflexivity]. }
    unfold calc_keeps; simp_st.
    split; [rewrite upd_same, Hl3, Hv; reflexivity|].
    split; [rewrite Hr3; exact Hr1|].
    split; [rewrite Hf3; exact Hf1|].
    split; [rewrite Hm3, Hm2; exact Hm1|].
    intros y Hy. simp_st. rewrite upd_other by (unfold c_l; lia).
    rewrite Hout; [|unfold c_r; lia|cbn; unfold c_l; lia].
    rewrite Hx2 by exact Hy. apply Hx1; exact Hy.
  - (* CNum *)
    intros k st. cbn [opsF evF].
    apply post_user. eapply post_assign; [reflexivity|]. apply post_user. apply post_nil. simp_st.
    split; [rewrite upd_same; reflexivity|]. split; [reflexivity|]. split; [reflexivity|].
    intros y Hy. simp_st. rewrite upd_other by (unfold c_n; lia). reflexivity.
  - (* CPar *)
    intros e IHe st. cbn [opsF evF].
    apply post_bracket_popassign.
    { unfold balanced. rewrite fdepth_app, (proj1 calc_balanced). reflexivity. }
    eapply post_conseq; [apply ret_wrap, IHe|].
    intros s2 (Hr2 & Hf2 & Hm2 & Hx2).
    exists (VInt (evE e)), (results st). split; [exact Hr2|].
    intros s3 Hv Hin Hout Hf3 Hr3 Hm3.
    apply post_user. apply post_nil.
    unfold calc_keeps; simp_st.
    split; [rewrite Hv, Hr3; reflexivity|].
    split; [exact Hf3|].
    split; [rewrite Hm3; exact Hm2|].
    intros y Hy. simp_st. rewrite Hout; [|unfold c_e; lia|cbn; unfold c_n; lia].
    apply Hx2; exact Hy.
Qed.

Lemma C07_calc_proof : stmt_C07_calc.
Proof.
  intros e st. unfold opsE.
  destruct (ret_wrap (opsEb e) 7 c_l (evE e) st (proj1 calc_main e st)) as (st' & He & Hr & Hf & Hm & Hx).
  exists st'. auto.
Qed.

(* ------------------------------------------------------------------ list *)

Scheme lseq_mind := Induction for lseq Sort Prop
with litem_mind := Induction for litem Sort Prop.
Combined Scheme list_mutind from lseq_mind, litem_mind.

Lemma post_collect_finish : forall mk rest st vs rs ms Q,
  results st = rev vs ++ rs -> marks st = length rs :: ms ->
  post rest (mkSt (vars st) (frames st) (mk vs :: rs) ms) Q ->
  post (ACollectFinish 1 mk :: rest) st Q.
Proof.
  intros mk rest st vs rs ms Q Hr Hm H. eapply post_cons; [|exact H].
  cbn [step]. rewrite Hm, Hr, app_length.
  replace (length (rev vs) + length rs - length rs) with (length (rev vs)) by lia.
  destruct (Nat.ltb_spec (length (rev vs) + length rs) (length rs)) as [Hlt|_]; [lia|].
  rewrite Nat.mod_1_r. cbn [orb Nat.eqb negb].
  rewrite firstn_app, skipn_app, Nat.sub_diag, firstn_all, skipn_all. cbn [firstn skipn].
  rewrite app_nil_r, rev_involutive. reflexivity.
Qed.

Lemma zlist_ints : forall l, zlist (VList (map VInt l)) = l.
Proof.
  intros l. cbn [zlist]. induction l as [|z l IHl]; cbn [map zof]; [reflexivity | rewrite IHl; reflexivity].
Qed.

Lemma list_balanced :
  (forall s d, fdepth (opsS s) d = Some d) /\
  (forall i d, fdepth (opsI i) d = Some d).
Proof.
  apply list_mutind.
  - intros i IHi d. cbn [opsS]. rewrite fdepth_app, IHi. reflexivity.
  - intros i IHi s IHs d. cbn [opsS]. rewrite fdepth_app, IHi. cbn [obind fdepth].
    rewrite fdepth_app, IHs. reflexivity.
  - intros z d. reflexivity.
  - intros s IHs k IHk d. cbn [opsI fdepth]. rewrite fdepth_app, IHs. cbn [obind fdepth].
    rewrite fdepth_app, IHk. reflexivity.
Qed.

Definition list_keeps (st s : astate) : Prop :=
  frames s = frames st /\ marks s = marks st /\ (forall y, 2 < y -> vars s y = vars st y).

Lemma list_main :
  (forall s st, post (opsS s) st (fun s' => results s' = rev (map VInt (evS s)) ++ results st /\ list_keeps st s')) /\
  (forall i st, post (opsI i) st (fun s' => results s' = VInt (evI i) :: results st /\ list_keeps st s')).
Proof.
  apply list_mutind.
  - (* LOne *)
    intros i IHi st. cbn [opsS evS]. apply post_app.
    eapply post_conseq; [apply IHi|].
    intros s1 (Hr1 & Hf1 & Hm1 & Hx1).
    eapply post_assign; [exact Hr1|]. apply post_user. apply post_nil.
    unfold list_keeps; simp_st.
    split; [rewrite upd_same; reflexivity|]. split; [exact Hf1|]. split; [exact Hm1|].
    intros y Hy. rewrite upd_other by (unfold l_x; lia). apply Hx1; exact Hy.
  - (* LCons *)
    intros i IHi s IHs st. cbn [opsS evS]. apply post_app.
    eapply post_conseq; [apply IHi|].
    intros s1 (Hr1 & Hf1 & Hm1 & Hx1).
    eapply post_assign; [exact Hr1|].
    apply post_bracket_pop; [apply (proj1 list_balanced)|].
    eapply post_conseq; [apply IHs|].
    intros s2 (Hr2 & Hf2 & Hm2 & Hx2) s3 Hin Hout Hf3 Hr3 Hm3.
    apply post_user. apply post_nil.
    unfold list_keeps; simp_st.
    split.
    { rewrite Hin by (left; reflexivity). simp_st. rewrite upd_same, Hr3, Hr2. simp_st.
      rewrite map_app, rev_app_distr. reflexivity. }
    split; [rewrite Hf3; exact Hf1|].
    split; [rewrite Hm3, Hm2; exact Hm1|].
    intros y Hy. rewrite Hout by (cbn; unfold l_x; lia). rewrite Hx2 by exact Hy. simp_st.
    rewrite upd_other by (unfold l_x; lia). apply Hx1; exact Hy.
  - (* LNum *)
    intros z st. cbn [opsI evI]. apply post_user. apply post_nil.
    unfold list_keeps; simp_st. auto.
  - (* LNest *)
    intros s IHs k IHk st. cbn [opsI evI].
    eapply post_cons; [reflexivity|]. apply post_app.
    eapply post_conseq; [apply IHs|].
    intros s1 (Hr1 & Hf1 & Hm1 & Hx1). simp_in Hr1. simp_in Hf1. simp_in Hm1. simp_in Hx1.
    eapply post_collect_finish; [exact Hr1 | exact Hm1|].
    eapply post_assign; [reflexivity|].
    apply post_bracket_popassign; [apply (proj2 list_balanced)|].
    eapply post_conseq; [apply IHk|].
    intros s2 (Hr2 & Hf2 & Hm2 & Hx2).
    exists (VInt (evI k)), (results st). split; [exact Hr2|].
    intros s3 Hv Hin Hout Hf3 Hr3 Hm3.
    apply post_user. apply post_nil.
    assert (Hxs : vars s3 l_xs = VList (map VInt (evS s))).
    { rewrite Hin; [|unfold l_xs, l_k; lia|left; reflexivity]. simp_st. apply upd_same. }
    unfold list_keeps; simp_st.
    split; [rewrite Hxs, Hv, zlist_ints, Hr3; reflexivity|].
    split; [rewrite Hf3; exact Hf1|].
    split; [rewrite Hm3, Hm2; reflexivity|].
    intros y Hy. rewrite Hout; [|unfold l_k; lia|cbn; unfold l_xs; lia].
    rewrite Hx2 by exact Hy. simp_st. rewrite upd_other by (unfold l_xs; lia). apply Hx1; exact Hy.
Qed.

Lemma C07_list_proof : stmt_C07_list.
Proof.
  intros i st. destruct (proj2 list_main i st) as (st' & He & Hr & Hf & Hm & Hx). exists st'. auto.
Qed.

Lemma C07_list_seq_proof : stmt_C07_list_seq.
Proof.
  intros s st. destruct (proj1 list_main s st) as (st' & He & Hr & Hf & Hm & Hx). exists st'. auto.
Qed.

(* ------------------------------------------------------------------ the frames are needed *)

Lemma C07_frames_needed_proof : stmt_C07_frames_needed.
Proof.
  split.
  - intros e H. vm_compute in H. discriminate H.
  - intros t H. vm_compute in H. discriminate H.
Qed.
