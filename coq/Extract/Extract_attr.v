(* Extraction unit of the C07 model (attribute machinery): the interpreter of action sequences, and for every
   grammar shape of Attr/AttrSpec.v the action sequence of a parse tree and its plain recursive evaluation.
   ExtrOcamlBasic only: numbers stay the extracted Coq datatypes. *)
From Coq Require Import Extraction ExtrOcamlBasic.
From Lug Require Import Attr.AttrModel Attr.AttrSpec.
Extraction Language OCaml.
Extraction "attr_model.ml" exec exec_obs init_state upd
  opsE evE opsI evI opsM evM opsK evK
  c_n c_e c_l c_r l_x l_xs l_k m_a m_b k_c k_acc.
