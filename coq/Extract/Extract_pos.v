(* Extraction unit of the C11 slice: the position model (Pos/PosModel.v) and its specification
   (Pos/PosSpec.v).  ExtrOcamlBasic only; numbers stay the extracted Coq datatypes. *)
From Coq Require Import Extraction ExtrOcamlBasic.
From Lug Require Import Utf8.Utf8Model Ucd.Lookup Pos.PosModel Pos.PosSpec.
Extraction Language OCaml.
Extraction "pos_model.ml" decompress_table cwidth ucwidth
  init_state default_state position_at set_match drain reset set_reset_flag step run
  spec_pos spec_runes.
