(* Extraction of the executable model.  ExtrOcamlBasic only: bool, option, unit, list, prod, sumbool
   map to OCaml's own types; numbers (positive, N, Z, nat) stay the extracted Coq datatypes. *)
From Coq Require Import Extraction ExtrOcamlBasic.
From Lug Require Import Utf8.Utf8Model Utf8.Utf8Spec Ucd.Rle Ucd.Lookup Ucd.RuneSet VM.Instr Lang.Expr Lang.Elab Lang.Codegen Lang.Link Lang.Lower VM.Machine Spec.Peg Spec.PegEval Spec.PegEnv Spec.PegEnvEval Spec.PegProp Proofs.LinkStmt Proofs.TopStmt.
Extraction Language OCaml.
Extraction "model.ml" decode_rune encode_rune count_runes decode_all
  wf_prefix dec_conforms enc_conforms
  decompress_table dec_stage1 dec_stage2 records_list query_index record_at query tocasefold tolower toupper cwidth ucwidth
  rec_all_of rec_any_of rec_none_of
  push_range push_casefolded_range push_rune sort_and_optimize negate contains rs_empty
  compile lower step init_state fetch desugar
  compile_defs link_layout frag peg_eval top_pexp rules_of placed default_space_expr and_free
  fragE pegE_eval pegP_eval reset_state enqueue init_state_with limits_ok.
