
val negb : bool -> bool

type nat =
| O
| S of nat

type ('a, 'b) sum =
| Inl of 'a
| Inr of 'b

val fst : ('a1 * 'a2) -> 'a1

val snd : ('a1 * 'a2) -> 'a2

val length : 'a1 list -> nat

val app : 'a1 list -> 'a1 list -> 'a1 list

type comparison =
| Eq
| Lt
| Gt

val compOpp : comparison -> comparison

val add : nat -> nat -> nat

val sub : nat -> nat -> nat

val eqb : nat -> nat -> bool

val leb : nat -> nat -> bool

val max : nat -> nat -> nat

type positive =
| XI of positive
| XO of positive
| XH

type n =
| N0
| Npos of positive

type z =
| Z0
| Zpos of positive
| Zneg of positive

val eqb0 : bool -> bool -> bool

module Nat :
 sig
  val eqb : nat -> nat -> bool
 end

module Pos :
 sig
  type mask =
  | IsNul
  | IsPos of positive
  | IsNeg
 end

module Coq_Pos :
 sig
  val succ : positive -> positive

  val add : positive -> positive -> positive

  val add_carry : positive -> positive -> positive

  val pred_double : positive -> positive

  val pred_N : positive -> n

  type mask = Pos.mask =
  | IsNul
  | IsPos of positive
  | IsNeg

  val succ_double_mask : mask -> mask

  val double_mask : mask -> mask

  val double_pred_mask : positive -> mask

  val sub_mask : positive -> positive -> mask

  val sub_mask_carry : positive -> positive -> mask

  val mul : positive -> positive -> positive

  val iter : ('a1 -> 'a1) -> 'a1 -> positive -> 'a1

  val pow : positive -> positive -> positive

  val compare_cont : comparison -> positive -> positive -> comparison

  val compare : positive -> positive -> comparison

  val eqb : positive -> positive -> bool

  val coq_Nsucc_double : n -> n

  val coq_Ndouble : n -> n

  val coq_lor : positive -> positive -> positive

  val coq_land : positive -> positive -> n

  val ldiff : positive -> positive -> n

  val coq_lxor : positive -> positive -> n

  val shiftl : positive -> n -> positive

  val testbit : positive -> n -> bool

  val iter_op : ('a1 -> 'a1 -> 'a1) -> positive -> 'a1 -> 'a1

  val to_nat : positive -> nat

  val of_succ_nat : nat -> positive
 end

module N :
 sig
  val succ_double : n -> n

  val double : n -> n

  val pred : n -> n

  val succ_pos : n -> positive

  val add : n -> n -> n

  val sub : n -> n -> n

  val mul : n -> n -> n

  val compare : n -> n -> comparison

  val eqb : n -> n -> bool

  val leb : n -> n -> bool

  val ltb : n -> n -> bool

  val min : n -> n -> n

  val max : n -> n -> n

  val div2 : n -> n

  val pow : n -> n -> n

  val pos_div_eucl : positive -> n -> n * n

  val div_eucl : n -> n -> n * n

  val modulo : n -> n -> n

  val coq_lor : n -> n -> n

  val coq_land : n -> n -> n

  val ldiff : n -> n -> n

  val coq_lxor : n -> n -> n

  val shiftl : n -> n -> n

  val shiftr : n -> n -> n

  val testbit : n -> n -> bool

  val to_nat : n -> nat

  val of_nat : nat -> n

  val iter : n -> ('a1 -> 'a1) -> 'a1 -> 'a1

  val ones : n -> n
 end

val hd : 'a1 -> 'a1 list -> 'a1

val hd_error : 'a1 list -> 'a1 option

val tl : 'a1 list -> 'a1 list

val nth : nat -> 'a1 list -> 'a1 -> 'a1

val nth_error : 'a1 list -> nat -> 'a1 option

val last : 'a1 list -> 'a1 -> 'a1

val rev : 'a1 list -> 'a1 list

val concat : 'a1 list list -> 'a1 list

val map : ('a1 -> 'a2) -> 'a1 list -> 'a2 list

val fold_left : ('a1 -> 'a2 -> 'a1) -> 'a2 list -> 'a1 -> 'a1

val fold_right : ('a2 -> 'a1 -> 'a1) -> 'a1 -> 'a2 list -> 'a1

val existsb : ('a1 -> bool) -> 'a1 list -> bool

val forallb : ('a1 -> bool) -> 'a1 list -> bool

val filter : ('a1 -> bool) -> 'a1 list -> 'a1 list

val firstn : nat -> 'a1 list -> 'a1 list

val skipn : nat -> 'a1 list -> 'a1 list

val seq : nat -> nat -> nat list

val repeat : 'a1 -> nat -> 'a1 list

module Z :
 sig
  val double : z -> z

  val succ_double : z -> z

  val pred_double : z -> z

  val pos_sub : positive -> positive -> z

  val add : z -> z -> z

  val opp : z -> z

  val sub : z -> z -> z

  val mul : z -> z -> z

  val compare : z -> z -> comparison

  val leb : z -> z -> bool

  val ltb : z -> z -> bool

  val eqb : z -> z -> bool

  val abs_N : z -> n

  val to_nat : z -> nat

  val to_N : z -> n

  val of_nat : nat -> z

  val of_N : n -> z

  val pos_div_eucl : positive -> z -> z * z

  val div_eucl : z -> z -> z * z

  val modulo : z -> z -> z
 end

val dfa_class_table : n list

val dfa_transition_table : n list

val st_accept : n

val st_reject : n

val utf8_replacement_sequence : n list

val utf32_replacement : n

val nthN : n list -> n -> n -> n

val two32 : n

val decode_rune_octet : n -> n -> n -> n * n

val is_lead_or_ascii : n -> bool

val skip_trail : n list -> nat

val decode_loop : n list -> n -> n -> nat -> nat * n

val decode_rune : n list -> nat * n

val next_rune : n list -> n list

val count_runes_fuel : nat -> n list -> nat option

val count_runes : n list -> nat option

val non_ascii_rune_length : n -> n

val encode_rune : n -> n list * bool

val decode_all_fuel : nat -> n list -> n list

val decode_all : n list -> n list

val in_range : n -> n -> n -> bool

val is_cont : n -> bool

val is_scalar : n -> bool

val lo2 : n -> n

val hi2 : n -> n

val wf_prefix : n list -> (nat * n) option

val utf8_len : n -> nat

val dec_conforms : n list -> nat -> n -> bool

val enc_conforms : n -> n list -> bool -> bool

val ilseqcode : n -> n

val seqmask : n -> n

val is_run : n -> n -> bool

val run_len : n -> n -> n

val repeatN : n -> 'a1 -> 'a1 list

val concat_rep : nat -> 'a1 list -> 'a1 list

val rle_decode_fuel : nat -> n -> n list -> n list option

val rle_decode : n -> n list -> n list option

module PositiveMap :
 sig
  type key = positive

  type 'a tree =
  | Leaf
  | Node of 'a tree * 'a option * 'a tree

  type 'a t = 'a tree

  val empty : 'a1 t

  val find : key -> 'a1 t -> 'a1 option

  val add : key -> 'a1 -> 'a1 t -> 'a1 t
 end

val rlestage1_width : n

val rlestage1 : n list

val rlestage2_width : n

val rlestage2 : n list

val rlepflagindices_width : n

val rlepflagindices : n list

val rlecflagindices_width : n

val rlecflagindices : n list

val rleabfields_width : n

val rleabfields : n list

val rlegcindices_width : n

val rlegcindices : n list

val rlescindices_width : n

val rlescindices : n list

val rlewfields_width : n

val rlewfields : n list

val rlecfindices_width : n

val rlecfindices : n list

val rleclindices_width : n

val rleclindices : n list

val rlecuindices_width : n

val rlecuindices : n list

val pflags : n list

val cflags : n list

val casemappings : z list

val stage1_size : n

val stage2_size : n

val records_size : n

val invalid_record_index : n

val rune_limit : n

val stage1_shift : n

val stage2_shift : n

val stage2_mask : n

val block_mask : n

val age_shift : n

val eaw_mask : n

val cw_shift : n

val ascii_limit : n

val ctype_alpha : n

val ctype_lower : n

val ctype_upper : n

val ctype_punct : n

val ctype_digit : n

val ctype_xdigit : n

val ctype_alnum : n

val ctype_space : n

val ctype_blank : n

val ctype_cntrl : n

val ctype_graph : n

val ctype_print : n

val ctype_word : n

val ptype_Ascii : n

val ptype_Cased : n

val ptype_Alphabetic : n

val property_enum_ctype : n

val property_enum_ptype : n

val property_enum_gctype : n

val property_enum_sctype : n

val property_enum_blktype : n

val property_enum_agetype : n

val property_enum_eawtype : n

type tbl = n PositiveMap.t

val tbl_of_list_from : positive -> n list -> tbl -> tbl

val tbl_of_list : n list -> tbl

val tget : tbl -> n -> n option

val fill_array : n -> n list option -> n list option

val dec_stage1 : n list option

val dec_stage2 : n list option

val dec_pfi : n list option

val dec_cfi : n list option

val dec_ab : n list option

val dec_gc : n list option

val dec_sc : n list option

val dec_w : n list option

val dec_cf : n list option

val dec_cl : n list option

val dec_cu : n list option

type raw_record = { pflags_ : n; cflags_ : n; abfields : n; gcindex : 
                    n; scindex : n; wfields : n; cfindex : n; clindex : 
                    n; cuindex : n }

val opt_nth : n list -> n -> n option

type ucd_table = { t_stage1 : tbl; t_stage2 : tbl;
                   t_records : raw_record PositiveMap.t; t_nrecords : 
                   n }

val zip_records :
  n list -> n list -> n list -> n list -> n list -> n list -> n list -> n
  list -> n list -> raw_record list option

val rtbl_of_list_from :
  positive -> raw_record list -> raw_record PositiveMap.t -> raw_record
  PositiveMap.t

val records_list : raw_record list option

val decompress_table : ucd_table option

val query_index : ucd_table -> n -> n option

val record_at : ucd_table -> n -> raw_record option

val query : ucd_table -> n -> raw_record option

val rec_compat : raw_record -> n

val rec_props : raw_record -> n

val rec_gc : raw_record -> n

val rec_script : raw_record -> n

val rec_block : raw_record -> n

val rec_age : raw_record -> n

val rec_eaw : raw_record -> n

val rec_cwidth : raw_record -> z

val case_mapping : n -> z option

val has : n -> n -> bool

val add_delta : n -> z -> n

val tocasefold : ucd_table -> n -> n option

val tolower : ucd_table -> n -> n option

val toupper : ucd_table -> n -> n option

val cwidth : ucd_table -> n -> z option

val ucwidth : ucd_table -> n -> n option

val prop_field : raw_record -> n -> n option

val prop_scalar : raw_record -> n -> n option

val rec_all_of : raw_record -> n -> n -> bool

val rec_any_of : raw_record -> n -> n -> bool

val rec_none_of : raw_record -> n -> n -> bool

type rune_set = { ivs : (n * n) list; ascii : n }

val rs_empty : rune_set

val rs_is_empty : rune_set -> bool

val max_rune : n

val bit_range : n -> n -> n

type rs_result =
| RsOk of rune_set
| RsBadRange
| RsIndex

val push_range : rune_set -> n -> n -> rs_result

val push_rune : rune_set -> n -> rune_set

val rs_bind : rs_result -> (rune_set -> rs_result) -> rs_result

val push_uniform_casefolded_range :
  ucd_table -> rune_set -> n -> n -> n -> rs_result

type pcr_state = { pcr_p : n; pcr_r1 : n; pcr_r2 : n; pcr_rn : n;
                   pcr_set : rs_result }

val pcr_step : ucd_table -> n -> pcr_state -> pcr_state

val push_casefolded_range : ucd_table -> rune_set -> n -> n -> rs_result

val iv_ltb : (n * n) -> (n * n) -> bool

val iv_insert : (n * n) -> (n * n) list -> (n * n) list

val iv_sort : (n * n) list -> (n * n) list

val optimize_loop : (n * n) list -> (n * n) list -> (n * n) list

val sort_and_optimize : rune_set -> rune_set

val negate_gaps : (n * n) list -> (n * n) list

val negate : rune_set -> rune_set

val lower_bound_snd : (n * n) list -> n -> (n * n) option

val contains : rune_set -> n -> bool

type name = n list

type class_kind =
| CkAll
| CkAny
| CkNone

type symk =
| SkAll
| SkAny
| SkHead
| SkTail

type sinstr =
| IJump of z
| IChoice of z * bool
| ICommit of z
| ICommitBack of z
| ICommitPartial of z
| IAccept of n
| ICall of z * n
| IRet
| IFail of n
| IRecoverPush of z
| IRecoverPop
| IRecoverResp of n
| IReportPush of (n * n)
| IReportPop
| IPredicate of (n * n)
| IAction of n
| ICaptureStart
| ICaptureEnd of n
| IConditionPop
| ISymbolEnd
| ISymbolPop
| IMatchAny of n
| IMatchEol
| IMatchOctet of n
| IMatchSet of rune_set
| IMatchClass of class_kind * n * n
| IMatch of n list
| IMatchCf of n list
| IConditionTest of name * bool
| IConditionPush of name * bool
| ISymbolExists of name * bool
| ISymbolMatch of symk * bool * name * n
| ISymbolStart of name
| ISymbolPush of n * name
| IRaise of name * bool

type tinstr =
| TI of sinstr
| TCall of nat * n * n
| TRecRule of nat * n

val len : 'a1 list -> z

val op_jump : n

val op_choice : n

val op_commit : n

val op_commit_back : n

val op_commit_partial : n

val op_accept : n

val op_call : n

val op_ret : n

val op_fail : n

val op_recover_push : n

val op_recover_pop : n

val op_recover_resp : n

val op_report_push : n

val op_report_pop : n

val op_predicate : n

val op_action : n

val op_capture_start : n

val op_capture_end : n

val op_condition_pop : n

val op_symbol_end : n

val op_symbol_pop : n

val op_match_any : n

val op_match_eol : n

val op_match_octet : n

val op_match_set : n

val op_match_all_of : n

val op_match_any_of : n

val op_match_none_of : n

val op_match : n

val op_match_cf : n

val op_condition_test : n

val op_condition_push : n

val op_symbol_exists : n

val op_symbol_all : n

val op_symbol_all_cf : n

val op_symbol_any : n

val op_symbol_any_cf : n

val op_symbol_head : n

val op_symbol_head_cf : n

val op_symbol_tail : n

val op_symbol_tail_cf : n

val op_symbol_start : n

val op_symbol_push : n

val op_raise : n

val dir_caseless : n

val dir_eps : n

val dir_lexeme : n

val dir_noskip : n

val dir_preskip : n

val dir_postskip : n

val resp_halt : n

val resp_resume : n

val resp_accept : n

val resp_backtrack : n

val resp_rethrow : n

val inline_max_instructions : n

val inline_max_objects : n

val max_eol_units : n

val max_rune_units : n

type expr =
| EStr of n list
| EAny
| EEps
| ENop
| EEoi
| EEol
| ECut
| EAccept
| EClass of class_kind * n * n
| ERange of n * n
| ERef of nat
| EPrec of nat * n
| ESeq of expr * expr
| EAlt of expr * expr
| EStar of expr
| EPlus of expr
| EOpt of expr
| EList of expr * expr
| ENot of expr
| EAnd of expr
| ERep of n * n * expr
| EDir of n * n * n * expr
| ECased of expr
| ECaseless of expr
| ELexeme of expr
| ENoskip of expr
| ESkip of expr
| EAct of n * expr
| ECap of n * expr
| ESym of name * expr
| EBlock of expr
| ELocal of expr
| ELocalTo of name * expr
| ECond of bool * name * expr
| EWhen of bool * name
| EExists of bool * name
| EMatchSym of symk * name * n
| ECutBefore of expr
| ECutAfter of expr
| EExpect of expr * name
| EExpectRule of expr * name * nat
| EExpectExpr of expr * name * expr
| ERaise of name
| ERaiseRule of name * nat
| ERaiseExpr of name * expr
| ERecRule of nat * expr
| ERecExpr of expr * expr
| EReport of (n * n) * expr
| ERespond of n * expr
| EResp of n
| EPred of (n * n)
| EBre of n list

val c : n

val e : n

val l : n

val nn : n

val p : n

val q : n

val nand : n -> n -> n

val apply_dir : n -> n -> n -> expr -> expr

val matches_eps : expr -> expr

val relays_eps : expr -> expr

val skip_after : expr -> expr

val skip_before : expr -> expr

val desugar : expr -> expr

type ruledef =
| RExpr of expr
| RCopy of nat

type grammar = { g_nrules : nat; g_defs : (nat * ruledef) list;
                 g_start : nat; g_space : expr option }

type pexp =
| PEmpty
| PInstr of sinstr
| PSeq of pexp * pexp
| PAlt of pexp * pexp
| PStar of pexp
| PNot of pexp
| PAnd of pexp
| PEoi
| PRep of n * n * pexp
| PCall of nat * n * n
| PInline of nat * pexp
| PSkip of pexp
| PWrap of sinstr * pexp * sinstr
| PRecRule of nat * n * pexp
| PRecExpr of pexp * pexp
| PRaiseRule of name * nat * n
| PRaiseExpr of name * pexp
| PNegSet of pexp

type 'a err =
| OK of 'a
| Err of n

val e_bad_range : n

val e_nested_space : n

val e_table : n

val e_limit : n

val e_bad_string : n

val e_bad_class : n

val bind2 : ('a1 * 'a2) err -> ('a1 -> 'a2 -> 'a3 err) -> 'a3 err

type est = { modes : n list; entry : n }

val top : est -> n

val set_top : n -> est -> est

val push_mode : n -> est -> est

val pop_mode : est -> est

type spacefn = est -> (pexp * est) err

val do_skip : spacefn -> est -> (pexp * est) err

val skip : spacefn -> n -> n -> est -> (pexp * est) err

val dpsh : n -> n -> est -> est

val dpop : spacefn -> n -> est -> (pexp * est) err

type rinfo = { r_body : pexp; r_len : n; r_objects : n; r_has_callees : 
               bool; r_entry : n; r_defined : bool }

val rinfo_empty : rinfo

val can_inline : rinfo -> n -> bool -> bool

val seqp : pexp -> pexp -> pexp

val map_opt : ('a1 -> 'a2 option) -> 'a1 list -> 'a2 list option

val utf8_tocasefold : ucd_table -> n list -> n list option

val bytes_eqb : n list -> n list -> bool

val take_any : n list -> (n list * n list) option

type belem =
| BRange of n list
| BClass of n list
| BSingle of n list

type bitem =
| BDot
| BSeq of n list
| BBracket of bool * belem list

val starts_with : n list -> n list -> bool

val class_name : nat -> n list -> n list * n list

val parse_element : n list -> (belem * n list) option

val more_elements : nat -> n list -> belem list * n list

val parse_bracket : n list -> (bitem * n list) option

val seq_chars : nat -> n list -> n list * n list

val parse_items : nat -> n list -> bitem list * n list

val parse_bre : n list -> bitem list option

val ascii_tolower : n -> n

val normalize_label : n list -> n list

val str_of : n list -> n list

val ctype_labels : (n list * n) list

val assoc_label : (n list * n) list -> n list -> n option

val stoctype : n list -> n option

val split_dash_from : n list -> n list * n list

val split_dash : n list -> n list * n list

type bstate = { b_runes : rune_set; b_classes : n }

val add_rune_range : ucd_table -> bool -> rune_set -> n -> n -> rune_set err

val bracket_range2 :
  ucd_table -> bool -> bstate -> n list -> n list -> bstate err

val apply_elem : ucd_table -> bool -> bstate -> belem -> bstate err

val apply_elems : ucd_table -> bool -> bstate -> belem list -> bstate err

val gen_match : ucd_table -> bool -> n list -> pexp err

val bracket_commit : bool -> bstate -> pexp

val gen_item : ucd_table -> bool -> bitem -> pexp err

val gen_items : ucd_table -> bool -> bitem list -> pexp err

val compile_bre : ucd_table -> bool -> n list -> (pexp * bool) err

val encoding : nat option -> nat -> bool

val elab_str : ucd_table -> spacefn -> n list -> est -> (pexp * est) err

val elab_range : ucd_table -> spacefn -> n -> n -> est -> (pexp * est) err

val elab_call :
  (nat -> rinfo) -> nat option -> spacefn -> nat -> n -> est -> (pexp * est)
  err

val elab :
  ucd_table -> (nat -> rinfo) -> nat option -> spacefn -> expr -> est ->
  (pexp * est) err

val no_space : spacefn

val rep_calls : nat -> z -> tinstr list

val rep_opts : nat -> z -> z -> tinstr list

val cg : pexp -> tinstr list

val is_object : tinstr -> bool

val is_callee : tinstr -> bool

val rinfo_of : pexp -> n -> rinfo

type rtable = (nat * rinfo) list

val rt_get : rtable -> nat -> rinfo

val rt_set : rtable -> nat -> rinfo -> rtable

val default_space_expr : expr

val spacefn_for : ucd_table -> expr -> rtable -> nat option -> spacefn

val final_entry : est -> n

val compile_rule : ucd_table -> expr -> rtable -> nat -> ruledef -> rinfo err

val compile_defs :
  ucd_table -> expr -> rtable -> (nat * ruledef) list -> rtable err

val callees_of : tinstr list -> z -> ((nat * z) * bool) list

val lr_found : nat -> (nat * bool) list -> bool

type lstate = { l_code : tinstr list; l_addrs : (nat * z) list;
                l_lrec : nat list; l_halt : z option;
                l_work : ((nat * bool) list * nat) list }

val assoc_find : (nat * z) list -> nat -> z option

val expand_callees :
  ((nat * z) * bool) list -> (nat * bool) list -> nat list -> nat
  list * ((nat * bool) list * nat) list

val link_step : rtable -> lstate -> lstate

val link_loop : nat -> rtable -> lstate -> lstate option

val is_ret : tinstr option -> bool

val resolve_code : lstate -> tinstr list -> z -> z -> sinstr list err

val total_callees : rtable -> nat

val start : ucd_table -> expr -> rtable -> nat -> sinstr list err

val compile : ucd_table -> grammar -> sinstr list err

type ninstr = { n_op : n; n_imm8 : n; n_imm16 : n; n_off : z }

type program = { p_code : ninstr list; p_data : n list; p_uniforms : 
                 n list; p_runesets : rune_set list;
                 p_handlers : (n * n) list; p_predicates : (n * n) list;
                 p_actions : n list; p_captures : n list }

val empty_program : program

val lenN : 'a1 list -> n

val b2n : bool -> n

val emit : program -> ninstr -> program

val plain : program -> n -> n -> n -> z -> program

val with_str : program -> n -> n -> n list -> program

val sym_op : symk -> bool -> n

val lower_one : program -> sinstr -> program

val lower : sinstr list -> program

type rkind =
| RAct of n
| RCap of n * n * n

type response = { r_depth : n; r_kind : rkind }

type symtab = (name * n list list) list

type frame =
| FBack of n option * n * n * bool * z
| FCall of z
| FCapture of n
| FCond of name * bool
| FLr of n * n option * n * z * z * n * response list
| FRaise of name * n * n * (n * n) option * z
| FRecover of z option
| FReport of (n * n) option
| FSymbol of name * n
| FSymtab of symtab

type event =
| EvAction of n * n
| EvCapture of n * n * n * n * n list
| EvPred of (n * n) * n
| EvHandler of (n * n) * name * n * n * n
| EvDrain of n
| EvPoll of n

type mstate = { pc : z; sr : n; mr : n; rc : n; cd : n; cic : n; cutf : 
                bool; accf : bool; rid : n; rinh : bool; eh : (n * n) option;
                rh : z option; rr : n; frames : frame list;
                resp : response list; buf : n list; pending : n list list;
                alive : bool; interactive : bool; conds : name list;
                syms : symtab; foldcache : (n * n list) list; success : 
                bool; fmode : n; log : event list }

type stuck =
| BadStack
| BadVariant
| BadOpcode
| Terminate
| OutOfRange
| BadIndex

type result =
| Running of mstate
| Done of bool * mstate
| Stuck of stuck * mstate

type callbacks = { cb_pred : ((n * n) -> n -> bool);
                   cb_handler : ((n * n) -> name -> n -> n -> n -> n) }

val upd_pc : z -> mstate -> mstate

val upd_sr : n -> mstate -> mstate

val upd_mr : n -> mstate -> mstate

val upd_rc : n -> mstate -> mstate

val upd_cd : n -> mstate -> mstate

val upd_ci : n -> bool -> bool -> mstate -> mstate

val upd_ri : n -> bool -> mstate -> mstate

val upd_eh : (n * n) option -> mstate -> mstate

val upd_rh : z option -> mstate -> mstate

val upd_rr : n -> mstate -> mstate

val upd_frames : frame list -> mstate -> mstate

val upd_resp : response list -> mstate -> mstate

val upd_src : n list -> n list list -> bool -> mstate -> mstate

val upd_conds : name list -> mstate -> mstate

val upd_syms : symtab -> mstate -> mstate

val upd_cache : (n * n list) list -> mstate -> mstate

val upd_success : bool -> mstate -> mstate

val upd_fmode : n -> mstate -> mstate

val add_log : event -> mstate -> mstate

val lenN0 : 'a1 list -> n

val firstnN : n -> 'a1 list -> 'a1 list

val skipnN : n -> 'a1 list -> 'a1 list

val name_eqb : name -> name -> bool

val name_ltb : name -> name -> bool

val has_cond : name list -> name -> bool

val remove_cond : name list -> name -> name list

val insert_cond : name list -> name -> name list

val set_cond : name list -> name -> bool -> name list

val get_symbols : symtab -> name -> n list list

val has_symbol : symtab -> name -> bool

val add_symbol : symtab -> name -> n list -> symtab

val erase_symbol : symtab -> name -> symtab

val poll : mstate -> mstate

val fill_loop : nat -> n -> mstate -> mstate

val fill_buffer : n -> n -> mstate -> bool * mstate

val available_loop : nat -> n -> n -> n -> mstate -> bool * mstate

val available : n -> n -> n -> mstate -> bool * mstate

val subject_from : n -> mstate -> n list

val m_any : n -> mstate -> bool * mstate

val utf8_match_eol : n list -> n

val m_eol : mstate -> bool * mstate

val m_octet : n -> mstate -> bool * mstate

val m_rune :
  ucd_table -> (n -> bool option) -> mstate -> (result, bool * mstate) sum

val class_test : ucd_table -> class_kind -> n -> n -> n -> bool option

val list_eqb : n list -> n list -> bool

val compare_at : n -> n -> n list -> mstate -> bool

val cache_get : (n * n list) list -> n -> n list option

val cache_set : (n * n list) list -> n -> n list -> (n * n list) list

val casefold_compare_at :
  ucd_table -> n -> n -> n list -> mstate -> (bool * mstate) option

val m_seq_at :
  ucd_table -> bool -> n list -> n -> mstate -> (result, n option * mstate)
  sum

val m_seq :
  ucd_table -> bool -> n list -> mstate -> (result, bool * mstate) sum

val sym_mod : ucd_table -> bool -> n list -> n list option

val m_sym_all :
  ucd_table -> bool -> n list list -> n -> mstate -> (result, n
  option * mstate) sum

val m_sym_any :
  ucd_table -> bool -> n list list -> n -> mstate -> (result, n
  option * mstate) sum

val m_symbol :
  ucd_table -> symk -> bool -> name -> n -> mstate -> (result, bool * mstate)
  sum

val pop_responses_after : n -> mstate -> mstate

val restore_responses_after : n -> response list -> mstate -> mstate

val push_response : response -> mstate -> mstate

val run_responses : n list -> response list -> mstate -> bool * mstate

val do_accept : mstate -> result

val tombstone : n -> frame -> frame

val drain : mstate -> mstate

val subject_ok : mstate -> bool

val accept_or_drain_if_deferred : mstate -> result

val final_accept : mstate -> result

val is_ws : n -> bool

val find_ws : n list -> nat option

val default_recovery_loop : nat -> n -> mstate -> n * mstate

val match_default_recovery : mstate -> mstate

val rESUME : n

val aCCEPT : n

val bACKTRACK : n

val rETHROW : n

val hALT : n

val next_report : frame list -> ((n * n) option * frame list) option

val handler_chain :
  callbacks -> nat -> (n * n) option -> frame list -> name -> n -> n -> n ->
  mstate -> n * mstate

val return_from_raise :
  callbacks -> name -> n -> n -> (n * n) option -> z -> mstate -> (result,
  n * mstate) sum

val fail_one : callbacks -> mstate -> (result, n * mstate) sum

val start_fail : n -> mstate -> result

val unwind : callbacks -> nat -> mstate -> result

val fail_step : callbacks -> mstate -> result

type lrsearch =
| LrFound of frame
| LrNone

val find_memo : frame list -> n -> z -> lrsearch

val call_into : n -> z -> mstate -> result

val do_ret : callbacks -> mstate -> result

val after_match : (bool * mstate) -> result

val after_match' : (result, bool * mstate) sum -> result

val exec : ucd_table -> callbacks -> sinstr -> mstate -> result

val fetch : sinstr list -> z -> sinstr option

val step : ucd_table -> callbacks -> sinstr list -> mstate -> result

val init_state :
  n list -> n list list -> bool -> name list -> symtab -> mstate

val init_state_with :
  n list -> n list list -> bool -> bool -> name list -> symtab -> mstate

val reset_state : mstate -> mstate

val enqueue : n list -> mstate -> mstate

type tr_item =
| TrAct of n
| TrCap of n * n * n

type out =
| Succ of n * tr_item list * n
| Fail of n

val rest : n list -> n -> n list

val tmatch : ucd_table -> n list -> sinstr -> n -> n option

val is_terminal : sinstr -> bool

val frag : pexp -> bool

val rep_eval : (n -> out option) -> nat -> nat -> n -> out option

val peg_eval :
  ucd_table -> n list -> (nat -> pexp option) -> nat -> pexp -> n -> out
  option

type oute =
| SuccE of n * tr_item list * n * symtab
| FailE of n * symtab

val lit_at : n list -> n list -> n -> n option

val sym_all : n list -> n list list -> n -> n option

val sym_any : n list -> n list list -> n -> n option

val sym_match : n list -> symk -> n list list -> n -> n -> n option

val scope_enter : n -> name -> symtab -> symtab

val fragE : pexp -> bool

val repE_eval :
  (n -> symtab -> oute option) -> nat -> nat -> n -> symtab -> oute option

val pegE_eval :
  ucd_table -> n list -> (nat -> pexp option) -> nat -> name list -> pexp ->
  n -> symtab -> oute option

val restore : symtab -> oute option -> oute option

val repP_eval :
  (n -> symtab -> oute option) -> nat -> nat -> n -> symtab -> oute option

val pegP_eval :
  ucd_table -> n list -> (nat -> pexp option) -> nat -> name list -> pexp ->
  n -> symtab -> oute option

val link_layout : ucd_table -> expr -> rtable -> nat -> (pexp * lstate) err

val placed : lstate -> nat -> bool

val and_free : pexp -> bool

val rules_of : rtable -> lstate -> nat -> pexp option

val top_pexp : pexp -> nat -> pexp
