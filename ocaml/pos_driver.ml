(* Model side of the C11 correspondence: runs the extracted Coq model of the position bookkeeping
   (Pos/PosModel.v) on the same command lines as cpp/posdrv.cpp and prints the same canonical lines;
   `spec ...` lines are answered by the specification (Pos/PosSpec.v).

   pos   <tabw> <taba> <op>...          one environment, the operations in order; prints the answers of the q ops
                                        (tabw = taba = "-": a default-constructed environment / default_state)
   fresh <tabw> <taba> <hex> <off>...   for every offset a fresh environment holding the text as one segment, one query
   spec  <tabw> <taba> <op>...          what PosSpec demands of every q op (position in ALL text appended so far)
   w <codepoint>                        unicode::cwidth
   ops:  t:<hex> append bytes to the segment   q:<offset> position_at   d drain   r reset   f:<0|1> should_reset_on_parse *)
open Pos_model

let rec pos_of_int (i : int) : positive =
  if i = 1 then XH else if i land 1 = 0 then XO (pos_of_int (i lsr 1)) else XI (pos_of_int (i lsr 1))
let n_of_int (i : int) : n = if i = 0 then N0 else Npos (pos_of_int i)
let rec int_of_pos (p : positive) : int = match p with XH -> 1 | XO q -> 2 * int_of_pos q | XI q -> 2 * int_of_pos q + 1
let int_of_n (x : n) : int = match x with N0 -> 0 | Npos p -> int_of_pos p
let int_of_z (x : z) : int = match x with Z0 -> 0 | Zpos p -> int_of_pos p | Zneg p -> - (int_of_pos p)
let ucd = lazy (match decompress_table with Some t -> t | None -> failwith "decompress_table: malformed RLE data")

let unhex (h : string) : n list =
  if h = "-" then [] else
  let l = String.length h / 2 in
  List.init l (fun i -> n_of_int (int_of_string ("0x" ^ String.sub h (2 * i) 2)))

let show (p : pos) : string = Printf.sprintf "%d.%d" (int_of_n p.p_line) (int_of_n p.p_col)

type o = T of n list | Q of int | D | R | F of bool
let parse_op (s : string) : o =
  let arg () = String.sub s 2 (String.length s - 2) in
  if s = "d" then D else if s = "r" then R
  else if String.length s >= 2 && s.[1] = ':' then
    (match s.[0] with
     | 't' -> T (unhex (arg ()))
     | 'q' -> Q (int_of_string (arg ()))
     | 'f' -> F (arg () = "1")
     | _ -> failwith ("bad op " ^ s))
  else failwith ("bad op " ^ s)

let do_pos tw ta ops =
  let t = Lazy.force ucd in
  let out = ref [] in
  let rec go s = function
    | [] -> ()
    | x :: rest ->
        let mop = (match x with T bs -> OText bs | Q i -> OQuery (n_of_int i) | D -> ODrain | R -> OReset | F b -> OFlag b) in
        (match step t s mop with
         | Some (s', ans) -> List.iter (fun p -> out := show p :: !out) ans; go s' rest
         | None -> out := "none" :: !out) in
  go (if tw < 0 then default_state else init_state (n_of_int tw) (n_of_int ta)) ops;
  print_string (String.concat " " (List.rev !out)); print_newline ()

let do_fresh tw ta text offs =
  let t = Lazy.force ucd in
  let s0 = set_match (init_state (n_of_int tw) (n_of_int ta)) text in
  let out = List.map (fun off -> match position_at t s0 (n_of_int off) with Some (p, _) -> show p | None -> "none") offs in
  print_string (String.concat " " out); print_newline ()

let do_spec tw ta ops =
  let t = Lazy.force ucd in
  let out = ref [] in
  (* all = every byte appended so far; base = length of the released prefix; flag = should_reset_on_parse *)
  let all = ref [] and total = ref 0 and base = ref 0 and flag = ref true in
  List.iter (function
      | T bs -> all := !all @ bs; total := !total + List.length bs
      | Q i ->
          let r = spec_pos t (n_of_int tw) (n_of_int ta) { p_line = n_of_int 1; p_col = n_of_int 1 } !all (n_of_int (!base + i)) in
          out := (match r with Some p -> show p | None -> "none") :: !out
      | D -> base := !total
      | R -> if !flag then base := !total
      | F b -> flag := b) ops;
  print_string (String.concat " " (List.rev !out)); print_newline ()

let () =
  try
    while true do
      let line = input_line stdin in
      if String.length line > 0 && line.[0] <> '#' then begin
        let toks = List.filter (fun s -> s <> "") (String.split_on_char ' ' line) in
        (try
          match toks with
          | "pos" :: "-" :: "-" :: ops -> do_pos (-1) (-1) (List.map parse_op ops)
          | "spec" :: "-" :: "-" :: ops -> do_spec (int_of_n default_state.ps_tabw) (int_of_n default_state.ps_taba) (List.map parse_op ops)   (* the defaults translated from the header *)
          | "pos" :: tw :: ta :: ops -> do_pos (int_of_string tw) (int_of_string ta) (List.map parse_op ops)
          | "spec" :: tw :: ta :: ops -> do_spec (int_of_string tw) (int_of_string ta) (List.map parse_op ops)
          | "fresh" :: tw :: ta :: h :: offs -> do_fresh (int_of_string tw) (int_of_string ta) (unhex h) (List.map int_of_string offs)
          | ["w"; cp] -> (match cwidth (Lazy.force ucd) (n_of_int (int_of_string cp)) with Some w -> Printf.printf "%d\n" (int_of_z w) | None -> print_string "none\n")
          | _ -> print_string "error unknown-command\n"
        with Failure m -> Printf.printf "error %s\n" m)
      end
    done
  with End_of_file -> ()
