(* Model side of the correspondence: runs the extracted Coq model on the same command lines as
   cpp/puredrv.cpp and prints the same canonical lines. *)
open Model

let rec pos_of_int (i : int) : positive =
  if i = 1 then XH else if i land 1 = 0 then XO (pos_of_int (i lsr 1)) else XI (pos_of_int (i lsr 1))
let n_of_int (i : int) : n = if i = 0 then N0 else Npos (pos_of_int i)
let rec int_of_pos (p : positive) : int = match p with XH -> 1 | XO q -> 2 * int_of_pos q | XI q -> 2 * int_of_pos q + 1
let int_of_n (x : n) : int = match x with N0 -> 0 | Npos p -> int_of_pos p
let rec int_of_nat (x : nat) : int = match x with O -> 0 | S y -> 1 + int_of_nat y
let rec nat_of_int (i : int) : nat = if i <= 0 then O else S (nat_of_int (i - 1))

let z_of_int (i : int) : z = if i = 0 then Z0 else if i > 0 then Zpos (pos_of_int i) else Zneg (pos_of_int (- i))
let int_of_z (x : z) : int = match x with Z0 -> 0 | Zpos p -> int_of_pos p | Zneg p -> - (int_of_pos p)
let ucd = lazy (match decompress_table with Some t -> t | None -> failwith "decompress_table: malformed RLE data")
let rec i64_of_pos (p : positive) : int64 = match p with XH -> 1L | XO q -> Int64.mul 2L (i64_of_pos q) | XI q -> Int64.add (Int64.mul 2L (i64_of_pos q)) 1L
let i64_of_n (x : n) : int64 = match x with N0 -> 0L | Npos p -> i64_of_pos p
let print_rec (r : raw_record) =
  Printf.printf "%Lu %d %d %d %d %d %d %d %d\n" (i64_of_n r.pflags_) (int_of_n r.cflags_) (int_of_n r.abfields) (int_of_n r.gcindex)
    (int_of_n r.scindex) (int_of_n r.wfields) (int_of_n r.cfindex) (int_of_n r.clindex) (int_of_n r.cuindex)
let oi f = function Some x -> f x | None -> -999999

let unhex (h : string) : n list =
  if h = "-" then [] else
  let l = String.length h / 2 in
  List.init l (fun i -> n_of_int (int_of_string ("0x" ^ String.sub h (2 * i) 2)))
let hex (l : n list) : string =
  if l = [] then "-" else String.concat "" (List.map (fun b -> Printf.sprintf "%02x" (int_of_n b)) l)

let () =
  try
    while true do
      let line = input_line stdin in
      if String.length line > 0 && line.[0] <> '#' then begin
        let toks = List.filter (fun s -> s <> "") (String.split_on_char ' ' line) in
        match toks with
        | ["dec"; h] -> let (c, r) = decode_rune (unhex h) in Printf.printf "%d %d\n" (int_of_nat c) (int_of_n r)
        | ["cnt"; h] -> (match count_runes (unhex h) with Some c -> Printf.printf "%d\n" (int_of_nat c) | None -> print_string "nofuel\n")
        | ["enc"; cp] -> let (bs, ok) = encode_rune (n_of_int (int_of_string cp)) in Printf.printf "%s %d\n" (hex bs) (if ok then 1 else 0)
        | ["chk_dec"; h; c; r] -> print_string (if dec_conforms (unhex h) (nat_of_int (int_of_string c)) (n_of_int (int_of_string r)) then "ok\n" else "bad\n")
        | ["chk_enc"; cp; h; ok] -> print_string (if enc_conforms (n_of_int (int_of_string cp)) (unhex h) (ok = "1") then "ok\n" else "bad\n")
        | ["ucddump"] ->
            (match dec_stage1 with Some l -> print_string "stage1"; List.iter (fun v -> Printf.printf " %d" (int_of_n v)) l; print_newline () | None -> print_string "stage1 error\n");
            (match dec_stage2 with Some l -> print_string "stage2"; List.iter (fun v -> Printf.printf " %d" (int_of_n v)) l; print_newline () | None -> print_string "stage2 error\n");
            (match records_list with Some l -> List.iteri (fun i r -> Printf.printf "rec %d " i; print_rec r) l | None -> print_string "records error\n")
        | ["qidx"; lo; hi] ->
            let t = Lazy.force ucd in
            for cp = int_of_string lo to int_of_string hi - 1 do
              match query t (n_of_int cp) with Some r -> Printf.printf "%d " cp; print_rec r | None -> Printf.printf "%d index-out-of-range\n" cp
            done
        | ["q"; lo; hi] ->
            let t = Lazy.force ucd in
            for cp = int_of_string lo to int_of_string hi - 1 do
              let c = n_of_int cp in
              Printf.printf "%d 0 %d %d %d %d %d\n" cp (oi int_of_n (tocasefold t c)) (oi int_of_n (tolower t c)) (oi int_of_n (toupper t c)) (oi int_of_z (cwidth t c)) (oi int_of_n (ucwidth t c))
            done
        | ["wf"; h] -> (match wf_prefix (unhex h) with Some (c, r) -> Printf.printf "%d %d\n" (int_of_nat c) (int_of_n r) | None -> print_string "none\n")
        | _ -> print_string "error unknown-command\n"
      end
    done
  with End_of_file -> ()
