(* Model side of the correspondence: runs the extracted Coq model on the same command lines as
   cpp/puredrv.cpp and prints the same canonical lines. *)
open Model

let rec pos_of_int (i : int) : positive =
  if i = 1 then XH else if i land 1 = 0 then XO (pos_of_int (i lsr 1)) else XI (pos_of_int (i lsr 1))
let n_of_int (i : int) : n = if i = 0 then N0 else Npos (pos_of_int i)
let rec int_of_pos (p : positive) : int = match p with XH -> 1 | XO q -> 2 * int_of_pos q | XI q -> 2 * int_of_pos q + 1
let int_of_n (x : n) : int = match x with N0 -> 0 | Npos p -> int_of_pos p
let rec int_of_nat (x : nat) : int = match x with O -> 0 | S y -> 1 + int_of_nat y
let rec nat_of_int (i : int) : nat = if i <= 0 then O else S (nat_of_int (i - 1))

let z_of_int (i : int) : z = if i = 0 then Z0 else if i > 0 then Zpos (pos_of_int i) else Zneg (pos_of_int (- i))
let int_of_z (x : z) : int = match x with Z0 -> 0 | Zpos p -> int_of_pos p | Zneg p -> - (int_of_pos p)
let ucd = lazy (match decompress_table with Some t -> t | None -> failwith "decompress_table: malformed RLE data")
let rec i64_of_pos (p : positive) : int64 = match p with XH -> 1L | XO q -> Int64.mul 2L (i64_of_pos q) | XI q -> Int64.add (Int64.mul 2L (i64_of_pos q)) 1L
let i64_of_n (x : n) : int64 = match x with N0 -> 0L | Npos p -> i64_of_pos p
let print_rec (r : raw_record) =
  Printf.printf "%Lu %d %d %d %d %d %d %d %d\n" (i64_of_n r.pflags_) (int_of_n r.cflags_) (int_of_n r.abfields) (int_of_n r.gcindex)
    (int_of_n r.scindex) (int_of_n r.wfields) (int_of_n r.cfindex) (int_of_n r.clindex) (int_of_n r.cuindex)
let oi f = function Some x -> f x | None -> -999999

let unhex (h : string) : n list =
  if h = "-" then [] else
  let l = String.length h / 2 in
  List.init l (fun i -> n_of_int (int_of_string ("0x" ^ String.sub h (2 * i) 2)))
let hex (l : n list) : string =
  if l = [] then "-" else String.concat "" (List.map (fun b -> Printf.sprintf "%02x" (int_of_n b)) l)


(* ---------------------------------------------------------------- grammars *)
type sx = Atom of string | Lst of sx list
let parse_sx (str : string) : sx =
  let n = String.length str in
  let pos = ref 0 in
  let rec skip_ws () = while !pos < n && (str.[!pos] = ' ' || str.[!pos] = '\t') do incr pos done in
  let rec rd () =
    skip_ws ();
    if !pos < n && str.[!pos] = '(' then begin
      incr pos;
      let items = ref [] in
      let fin = ref false in
      while not !fin do
        skip_ws ();
        if !pos >= n then fin := true
        else if str.[!pos] = ')' then (incr pos; fin := true)
        else items := rd () :: !items
      done;
      Lst (List.rev !items)
    end else begin
      let st = !pos in
      while !pos < n && str.[!pos] <> ' ' && str.[!pos] <> '(' && str.[!pos] <> ')' && str.[!pos] <> '\t' do incr pos done;
      Atom (String.sub str st (!pos - st))
    end in
  rd ()

let name_of (a : string) : n list = List.init (String.length a) (fun i -> n_of_int (Char.code a.[i]))
let str_of_name (l : n list) : string = String.concat "" (List.map (fun b -> String.make 1 (Char.chr (int_of_n b))) l)
let atom = function Atom a -> a | Lst [] -> "" | _ -> failwith "atom expected"
let n_of_string (s : string) : n =
  (* decimal, possibly beyond OCaml's int range (64-bit masks) *)
  let r = ref N0 in
  String.iter (fun c -> r := N.add (N.mul !r (n_of_int 10)) (n_of_int (Char.code c - 48))) s; !r

exception Unknown_op of string

let rec build (rules : (string * nat) list) (s : sx) : expr =
  let rule nm = try List.assoc nm rules with Not_found -> failwith ("unknown rule " ^ nm) in
  match s with
  | Lst (Atom op :: args) ->
      let a i = List.nth args i in
      let b i = build rules (a i) in
      (match op with
       | "chr" | "str" -> EStr (unhex (atom (a 0)))
       | "any" -> EAny | "eps" -> EEps | "nop" -> ENop | "eoi" -> EEoi | "eol" -> EEol | "cut" -> ECut | "accept" -> EAccept
       | "cls" ->
           let k = (match atom (a 0) with "any" -> CkAny | "all" -> CkAll | _ -> CkNone) in
           let e = (match atom (a 1) with "c" -> property_enum_ctype | "p" -> property_enum_ptype | _ -> property_enum_gctype) in
           EClass (k, e, n_of_string (atom (a 2)))
       | "rng" -> ERange (n_of_string (atom (a 0)), n_of_string (atom (a 1)))
       | "ref" -> ERef (rule (atom (a 0)))
       | "prec" -> EPrec (rule (atom (a 0)), n_of_string (atom (a 1)))
       | "seq" -> ESeq (b 0, b 1) | "alt" -> EAlt (b 0, b 1) | "list" -> EList (b 0, b 1)
       | "star" -> EStar (b 0) | "plus" -> EPlus (b 0) | "opt" -> EOpt (b 0) | "not" -> ENot (b 0) | "and" -> EAnd (b 0)
       | "lexeme" -> ELexeme (b 0) | "noskip" -> ENoskip (b 0) | "skip" -> ESkip (b 0) | "caseless" -> ECaseless (b 0) | "cased" -> ECased (b 0)
       | "cutb" -> ECutBefore (b 0) | "cuta" -> ECutAfter (b 0)
       | "rep" -> ERep (n_of_string (atom (a 0)), n_of_string (atom (a 1)), b 2)
       | "act" -> EAct (n_of_string (atom (a 0)), b 1)
       | "cap" -> ECap (n_of_string (atom (a 0)), b 1)
       | "sym" -> ESym (name_of (atom (a 0)), b 1)
       | "block" -> EBlock (b 0) | "local" -> ELocal (b 0)
       | "localto" -> ELocalTo (name_of (atom (a 0)), b 1)
       | "on" -> ECond (true, name_of (atom (a 0)), b 1) | "off" -> ECond (false, name_of (atom (a 0)), b 1)
       | "when" -> EWhen (true, name_of (atom (a 0))) | "unless" -> EWhen (false, name_of (atom (a 0)))
       | "exists" -> EExists (true, name_of (atom (a 0))) | "missing" -> EExists (false, name_of (atom (a 0)))
       | "match" -> EMatchSym (SkTail, name_of (atom (a 0)), N0)
       | "match_all" -> EMatchSym (SkAll, name_of (atom (a 0)), N0)
       | "match_any" -> EMatchSym (SkAny, name_of (atom (a 0)), N0)
       | "match_front" -> EMatchSym (SkHead, name_of (atom (a 0)), n_of_string (atom (a 1)))
       | "match_back" -> EMatchSym (SkTail, name_of (atom (a 0)), n_of_string (atom (a 1)))
       | "expect" ->
           let lab = name_of (atom (a 1)) in
           if List.length args <= 2 then EExpect (b 0, lab)
           else (match a 2 with
                 | Lst [Atom "ref"; Atom r] -> EExpectRule (b 0, lab, rule r)
                 | r -> EExpectExpr (b 0, lab, build rules r))
       | "raise" ->
           let lab = name_of (atom (a 0)) in
           if List.length args <= 1 then ERaise lab
           else (match a 1 with
                 | Lst [Atom "ref"; Atom r] -> ERaiseRule (lab, rule r)
                 | r -> ERaiseExpr (lab, build rules r))
       | "recwith" ->
           (match a 0 with
            | Lst [Atom "ref"; Atom r] -> ERecRule (rule r, b 1)
            | r -> ERecExpr (build rules r, b 1))
       | "report" -> EReport ((n_of_string (atom (a 0)), n_of_string (atom (a 1))), b 2)
       | "respond" -> ERespond (n_of_string (atom (a 0)), b 1)
       | "bre" -> EBre (unhex (atom (a 0)))
       | "pred" -> EPred (n_of_string (atom (a 0)), n_of_string (atom (a 1)))
       | _ -> raise (Unknown_op op))
  | _ -> failwith "bad expression"

let low32 (x : n) : int = int_of_n (N.coq_land x (n_of_int 0xffffffff))

let print_program (p : program) =
  List.iter (fun i -> Printf.printf "%d.%d.%d.%d " (int_of_n i.n_op) (int_of_n i.n_imm8) (int_of_n i.n_imm16) (int_of_z i.n_off)) p.p_code;
  Printf.printf "| data=%s uni=" (hex p.p_data);
  List.iter (fun u -> Printf.printf "%Lu," (i64_of_n u)) p.p_uniforms;
  print_string " rs=";
  List.iter (fun rs ->
      for w = 0 to 3 do Printf.printf "%08x" (low32 (N.shiftr rs.ascii (n_of_int (32 * w)))) done;
      print_string ":";
      List.iter (fun (a, b) -> Printf.printf "%d-%d," (int_of_n a) (int_of_n b)) rs.ivs;
      print_string ";") p.p_runesets;
  Printf.printf " nh=%d np=%d na=%d nc=%d" (List.length p.p_handlers) (List.length p.p_predicates) (List.length p.p_actions) (List.length p.p_captures)

let callbacks : callbacks =
  { cb_pred = (fun (_, k) size -> (int_of_n size + int_of_n k) mod 2 = 0);
    cb_handler = (fun (_, resp) _ _ _ incoming -> if int_of_n resp = 9 then incoming else resp) }

let err_name (w : n) : string =
  match int_of_n w with
  | 1 -> "character_range_is_reversed" | 2 -> "nested-space" | 3 -> "table-index" | 4 -> "limit"
  | 5 -> "invalid_string_or_bracket_expression" | 6 -> "invalid_character_class" | k -> "err" ^ string_of_int k

let show_polls = ref false
let print_event (e : event) =
  match e with
  | EvAction (id, d) -> Printf.printf "A%d@%d " (int_of_n id) (int_of_n d)
  | EvCapture (id, d, st, _, text) -> Printf.printf "C%d@%d(%d,%s) " (int_of_n id) (int_of_n d) (int_of_n st) (hex text)
  | EvPred ((id, k), sz) -> Printf.printf "P%d.%d@%d " (int_of_n id) (int_of_n k) (int_of_n sz)
  | EvHandler ((id, r), lab, idx, sz, inc) -> Printf.printf "H%d.%d(%s,%d,%d,%d) " (int_of_n id) (int_of_n r) (hex lab) (int_of_n idx) (int_of_n sz) (int_of_n inc)
  | EvPoll _ -> if !show_polls then print_string "POLL "
  | EvDrain _ -> ()

let more_sources = ref false
let budget = ref 200000
let trace = ref false

let last_state : mstate option ref = ref None
let last_res = ref ""
let run_input (caseno : int) (tag : string) (inhex : string) (prog : sinstr list) (s0 : mstate) =
  let t = Lazy.force ucd in
  let steps = ref 0 and h = ref 0 in
  let raises = Buffer.create 8 in
  let finish res (s : mstate) fix_mr =
    last_state := Some s; last_res := res;
    let mr = if fix_mr then N.max s.mr s.sr else s.mr in
    Printf.printf "case %d run %s %s res=%s sr=%Lu mr=%Lu steps=%d trace=%x log=" caseno tag inhex res (i64_of_n s.sr) (i64_of_n mr) !steps !h;
    List.iter print_event (List.rev s.log);
    print_string "conds=";
    List.iter (fun c -> Printf.printf "%s," c) (List.sort compare (List.map str_of_name s.conds));
    print_string " syms=";
    List.iter (fun x -> Printf.printf "%s," x)
      (List.sort compare (List.map (fun (k, vs) -> str_of_name k ^ "=" ^ String.concat "" (List.map (fun v -> hex v ^ "/") vs)) s.syms));
    Printf.printf " raises=%s\n" (Buffer.contents raises) in
  let rec go (s : mstate) =
    let fetched = (s.fmode = N0) && (match fetch prog s.pc with Some _ -> true | None -> false) in
    if fetched && !steps >= !budget then finish "diverged" s true
    else begin
      if fetched then begin
        incr steps;
        (match fetch prog s.pc with Some (IRaise (_, _)) -> Buffer.add_char raises (if s.rinh then 'I' else 'R') | _ -> ());
        let vals = [low32 (match s.pc with Z0 -> N0 | Zpos p -> Npos p | Zneg _ -> N0); low32 s.sr; low32 s.mr; low32 s.rc; low32 s.cd; low32 s.cic; List.length s.frames; List.length s.resp] in
        List.iter (fun v -> h := ((!h * 33) lxor v) land 0x3fffffffffffff) vals;
        if !trace then Printf.printf "  step %d pc=%d sr=%Lu mr=%Lu rc=%d cd=%d ci=%d fr=%d resp=%d\n" !steps (int_of_z s.pc) (i64_of_n s.sr) (i64_of_n s.mr) (int_of_n s.rc) (int_of_n s.cd) (int_of_n s.cic) (List.length s.frames) (List.length s.resp)
      end;
      match step t callbacks prog s with
      | Running s' -> go s'
      | Done (ok, s') -> finish (if ok then "1" else "0") s' false
      | Stuck (why, s') ->
          (match why with
           | BadStack -> finish "throw:empty_or_invalid_parser_stack_error" s' true
           | BadVariant -> finish "throw:std:St18bad_variant_access" s' true
           | BadOpcode -> finish "throw:invalid_opcode" s' true
           | OutOfRange -> finish "throw:std:St12out_of_range" s' true
           | Terminate -> last_state := None; last_res := "terminate"; Printf.printf "case %d run %s %s res=terminate steps=%d\n" caseno tag inhex !steps
           | BadIndex -> finish "stuck:table-index" s' false)
    end in
  go s0

(* reference semantics (Spec/PegEval.v) on the same grammar and input: the oracle of the conformance search *)
let spec_fuel = ref 1500
let spec_line (caseno : int) (inhex : string) (g : grammar) =
  let t = Lazy.force ucd in
  let space = (match g.g_space with Some e -> desugar e | None -> default_space_expr) in
  match compile_defs t space [] g.g_defs with
  | Err _ -> ()
  | OK rt ->
    (match link_layout t space rt g.g_start with
     | Err _ -> ()
     | OK (sk, s) ->
        let in_frag = (s.l_lrec = []) && frag sk && List.for_all (fun (r, _) -> frag (rt_get rt r).r_body) s.l_addrs in
        if not in_frag then Printf.printf "case %d spec %s n/a\n" caseno inhex
        else begin
          let inp = unhex inhex in
          match peg_eval t inp (rules_of rt s) (nat_of_int !spec_fuel) (top_pexp sk g.g_start) N0 with
          | None -> Printf.printf "case %d spec %s diverged\n" caseno inhex
          | Some (Fail f) -> Printf.printf "case %d spec %s res=0 mr=%d log=\n" caseno inhex (int_of_n f)
          | Some (Succ (j, tr, f)) ->
              Printf.printf "case %d spec %s res=1 sr=%d mr=%d log=" caseno inhex (int_of_n j) (int_of_n (N.max f j));
              List.iter (function
                  | TrAct id -> Printf.printf "A%d " (int_of_n id)
                  | TrCap (id, st, sz) -> Printf.printf "C%d(%d,%s) " (int_of_n id) (int_of_n st) (hex (firstnN sz (skipnN st inp)))) tr;
              print_newline ()
        end)

(* environment semantics: specE = what Spec/PegEnv.v (proved to be what the machine does) says; specP = what the
   property demands (a failing expression leaves the symbol table alone) *)
let spec_env_lines (caseno : int) (inhex : string) (g : grammar) =
  let t = Lazy.force ucd in
  let space = (match g.g_space with Some e -> desugar e | None -> default_space_expr) in
  match compile_defs t space [] g.g_defs with
  | Err _ -> ()
  | OK rt ->
    (match link_layout t space rt g.g_start with
     | Err _ -> ()
     | OK (sk, s) ->
        let in_frag = (s.l_lrec = []) && fragE sk && List.for_all (fun (r, _) -> fragE (rt_get rt r).r_body) s.l_addrs in
        if not in_frag then Printf.printf "case %d specE %s n/a\n" caseno inhex
        else begin
          let inp = unhex inhex in
          let show tag o =
            (match o with
             | None -> Printf.printf "case %d %s %s diverged\n" caseno tag inhex
             | Some (FailE (f, sy)) ->
                 Printf.printf "case %d %s %s res=0 mr=%d log= syms=" caseno tag inhex (int_of_n f);
                 List.iter (fun x -> Printf.printf "%s," x) (List.sort compare (List.map (fun (k, vs) -> str_of_name k ^ "=" ^ String.concat "" (List.map (fun v -> hex v ^ "/") vs)) sy));
                 print_newline ()
             | Some (SuccE (j, tr, f, sy)) ->
                 Printf.printf "case %d %s %s res=1 sr=%d mr=%d log=" caseno tag inhex (int_of_n j) (int_of_n (N.max f j));
                 List.iter (function
                     | TrAct id -> Printf.printf "A%d " (int_of_n id)
                     | TrCap (id, st, sz) -> Printf.printf "C%d(%d,%s) " (int_of_n id) (int_of_n st) (hex (firstnN sz (skipnN st inp)))) tr;
                 print_string "syms=";
                 List.iter (fun x -> Printf.printf "%s," x) (List.sort compare (List.map (fun (k, vs) -> str_of_name k ^ "=" ^ String.concat "" (List.map (fun v -> hex v ^ "/") vs)) sy));
                 print_newline ()) in
          show "specE" (pegE_eval t inp (rules_of rt s) (nat_of_int !spec_fuel) [] (top_pexp sk g.g_start) N0 []);
          show "specP" (pegP_eval t inp (rules_of rt s) (nat_of_int !spec_fuel) [] (top_pexp sk g.g_start) N0 [])
        end)

let with_spec = ref false
let with_spec_env = ref false
let do_grammar (caseno : int) (line : string) =
  match parse_sx line with
  | Lst (Atom "grammar" :: items) ->
      let names = List.filter_map (function Lst (Atom ("rule" | "rulecopy") :: Atom nm :: _) -> Some nm | _ -> None) items in
      let names = List.sort_uniq compare names in
      let rules = List.mapi (fun i nm -> (nm, nat_of_int i)) names in
      (try
        let space = ref None and defs = ref [] and start = ref O in
        List.iter (function
            | Lst [Atom "space"; Atom "default"] -> ()
            | Lst [Atom "space"; e] -> space := Some (build rules e)
            | Lst [Atom "rule"; Atom nm; e] -> defs := (List.assoc nm rules, RExpr (build rules e)) :: !defs
            | Lst [Atom "rulecopy"; Atom nm; Atom src] -> defs := (List.assoc nm rules, RCopy (List.assoc src rules)) :: !defs
            | Lst [Atom "start"; Atom nm] -> start := List.assoc nm rules
            | _ -> ()) items;
        let g = { g_nrules = nat_of_int (List.length names); g_defs = List.rev !defs; g_start = !start; g_space = !space } in
        match compile (Lazy.force ucd) g with
        | Err w -> Printf.printf "case %d error %s\n" caseno (err_name w)
        | OK code when not (limits_ok code) -> Printf.printf "case %d error number_of_resources_exceeds_internal_limit\n" caseno
        | OK code ->
            Printf.printf "case %d prog " caseno; print_program (lower code); print_newline ();
            List.iter (function
                | Lst (Atom "input" :: rest) ->
                    let inhex = (match rest with [Atom h] -> h | _ -> "-") in
                    run_input caseno "sv" inhex code (init_state (unhex inhex) [] false [] []);
                    if !more_sources then begin
                      run_input caseno "str" inhex code (init_state (unhex inhex) [] false [] []);
                      (* std::istream through readsource: one delivery of the whole text (nothing at all when it is empty) *)
                      run_input caseno "ist" inhex code (init_state_with [] (if inhex = "-" then [] else [unhex inhex]) true false [] [])
                    end;
                    if !with_spec then spec_line caseno inhex g;
                    if !with_spec_env then spec_env_lines caseno inhex g
                | Lst (Atom "history" :: steps) ->
                    (* parses on one parser: every parse starts from reset_state of the state the previous one ended in;
                       the model follows the history up to the first injected exception / nested parse *)
                    let prev = ref (init_state_with [] [] false false [] []) in
                    let alive = ref true in
                    List.iteri (fun k st ->
                        match st with
                        | Lst (Atom "p" :: rest) when !alive ->
                            let inhex = (match rest with [Atom h] -> h | _ -> "-") in
                            let inp = unhex inhex in
                            let s0 = enqueue inp (reset_state !prev) in
                            let fresh = init_state_with s0.buf [] false false s0.conds s0.syms in
                            run_input caseno (Printf.sprintf "h%dp" (k + 1)) inhex code s0;
                            (match !last_state with Some s -> prev := s | None -> alive := false);
                            if !last_res = "diverged" then alive := false;
                            (* std::terminate ends the implementation's history process at once *)
                            if !last_res <> "terminate" then run_input caseno (Printf.sprintf "f%dp" (k + 1)) inhex code fresh
                        | _ -> alive := false) steps
                | Lst (Atom "lines" :: pieces) ->
                    let hs = List.map atom pieces in
                    let n = List.length hs in
                    show_polls := true;
                    let prev = ref (init_state_with [] (List.map unhex hs) true true [] []) in
                    let first = ref true and stop = ref false in
                    for k = 1 to n + 1 do
                      if not !stop then begin
                        let s0 = if !first then !prev else reset_state !prev in
                        first := false;
                        run_input caseno (Printf.sprintf "i%d" k) (if k <= n then List.nth hs (k - 1) else "-") code s0;
                        (match !last_state with
                         | Some s -> prev := s; if !last_res <> "1" && s.pending = [] then stop := true
                         | None -> stop := true)
                      end
                    done;
                    show_polls := false
                | Lst (Atom "chunks" :: pieces) ->
                    let hs = List.map atom pieces in
                    let all = if hs = [] then "-" else String.concat "|" hs in
                    run_input caseno "ch" all code (init_state [] (List.map unhex hs) false [] [])
                | _ -> ()) items
      with Unknown_op op -> Printf.printf "case %d error std:unknown op %s\n" caseno op)
  | _ -> Printf.printf "case %d error bad-line\n" caseno

let caseno = ref 0
let () =
  Array.iter (fun a -> if a = "--trace" then trace := true else if a = "--sources" then more_sources := true else if a = "--spec" then with_spec := true else if a = "--spec-env" then with_spec_env := true else if String.length a > 9 && String.sub a 0 9 = "--budget=" then budget := int_of_string (String.sub a 9 (String.length a - 9))) Sys.argv;
  try
    while true do
      let line = input_line stdin in
      if String.length line > 8 && String.sub line 0 8 = "(grammar" then (incr caseno; do_grammar !caseno line; flush stdout)
      else if String.length line > 0 && line.[0] <> '#' then begin
        let toks = List.filter (fun s -> s <> "") (String.split_on_char ' ' line) in
        match toks with
        | ["dec"; h] -> let (c, r) = decode_rune (unhex h) in Printf.printf "%d %d\n" (int_of_nat c) (int_of_n r)
        | ["cnt"; h] -> (match count_runes (unhex h) with Some c -> Printf.printf "%d\n" (int_of_nat c) | None -> print_string "nofuel\n")
        | ["enc"; cp] -> let (bs, ok) = encode_rune (n_of_int (int_of_string cp)) in Printf.printf "%s %d\n" (hex bs) (if ok then 1 else 0)
        | ["chk_dec"; h; c; r] -> print_string (if dec_conforms (unhex h) (nat_of_int (int_of_string c)) (n_of_int (int_of_string r)) then "ok\n" else "bad\n")
        | ["chk_enc"; cp; h; ok] -> print_string (if enc_conforms (n_of_int (int_of_string cp)) (unhex h) (ok = "1") then "ok\n" else "bad\n")
        | ["ucddump"] ->
            (match dec_stage1 with Some l -> print_string "stage1"; List.iter (fun v -> Printf.printf " %d" (int_of_n v)) l; print_newline () | None -> print_string "stage1 error\n");
            (match dec_stage2 with Some l -> print_string "stage2"; List.iter (fun v -> Printf.printf " %d" (int_of_n v)) l; print_newline () | None -> print_string "stage2 error\n");
            (match records_list with Some l -> List.iteri (fun i r -> Printf.printf "rec %d " i; print_rec r) l | None -> print_string "records error\n")
        | ["qidx"; lo; hi] ->
            let t = Lazy.force ucd in
            for cp = int_of_string lo to int_of_string hi - 1 do
              match query t (n_of_int cp) with Some r -> Printf.printf "%d " cp; print_rec r | None -> Printf.printf "%d index-out-of-range\n" cp
            done
        | ["q"; lo; hi] ->
            let t = Lazy.force ucd in
            for cp = int_of_string lo to int_of_string hi - 1 do
              let c = n_of_int cp in
              Printf.printf "%d 0 %d %d %d %d %d\n" cp (oi int_of_n (tocasefold t c)) (oi int_of_n (tolower t c)) (oi int_of_n (toupper t c)) (oi int_of_z (cwidth t c)) (oi int_of_n (ucwidth t c))
            done
        | "rs" :: ops ->
            let t = Lazy.force ucd in
            let answers = Buffer.create 16 in
            let split3 op = (match String.split_on_char ':' op with
                             | [_; a] -> (n_of_string a, N0) | [_; a; b] -> (n_of_string a, n_of_string b) | _ -> (N0, N0)) in
            let result = List.fold_left (fun acc op ->
                match acc with
                | Error e -> Error e
                | Ok rs ->
                    if op = "so" then Ok (sort_and_optimize rs)
                    else if op = "neg" then Ok (negate rs)
                    else begin
                      let (a, b) = split3 op in
                      match op.[0] with
                      | 'r' -> (match push_range rs a b with RsOk s -> Ok s | RsBadRange -> Error "character range is reversed" | RsIndex -> Error "table-index")
                      | 'c' -> (match push_casefolded_range t rs a b with RsOk s -> Ok s | RsBadRange -> Error "character range is reversed" | RsIndex -> Error "table-index")
                      | 'u' -> Ok (push_rune rs a)
                      | '?' -> Buffer.add_char answers (if contains rs a then '1' else '0'); Ok rs
                      | _ -> Ok rs
                    end) (Ok rs_empty) ops in
            (match result with
             | Error e -> Printf.printf "throw %s\n" e
             | Ok rs ->
                 print_string "ascii=";
                 for w = 0 to 3 do Printf.printf "%08x" (low32 (N.shiftr rs.ascii (n_of_int (32 * w)))) done;
                 print_string " iv=";
                 List.iter (fun (a, b) -> Printf.printf "%d-%d," (int_of_n a) (int_of_n b)) rs.ivs;
                 Printf.printf " q=%s\n" (Buffer.contents answers))
        | ["wf"; h] -> (match wf_prefix (unhex h) with Some (c, r) -> Printf.printf "%d %d\n" (int_of_nat c) (int_of_n r) | None -> print_string "none\n")
        | _ -> print_string "error unknown-command\n"
      end
    done
  with End_of_file -> ()
