(* Model side of the C07 correspondence: reads one case per line
     <shape> <parse tree in prefix notation>
   builds the extracted tree, lets the extracted Coq model produce the action sequence the compiled grammar
   runs for that tree (opsE/opsI/opsM/opsK of Attr/AttrSpec.v), executes it with the extracted interpreter
   (exec_obs of Attr/AttrModel.v) and prints the same canonical line as cpp/attrdrv.cpp:
     ok res=<value> rdepth=<n> fdepth=<n> marks=<n> vars=<v0>;<v1>;... obs=<id>:<rdepth>:<fdepth>,...
     throw:incompatible or invalid attribute stack frame        (exec = None)
   Tree notation (tokens separated by blanks):
     calc    E ::= t T | + E T | - E T      T ::= f F | * T F      F ::= n <int> | p E
     list    I ::= n <int> | l S I          S ::= o I | c I S
     mirror  T ::= n <int> | b T T
     chain   K ::= o <int> | c <int> K
   A second command, `eval <shape> <tree>`, prints the plain recursive evaluation (ev* of AttrSpec.v). *)
open Attr_model

let rec pos_of_int (i : int) : positive =
  if i = 1 then XH else if i land 1 = 0 then XO (pos_of_int (i lsr 1)) else XI (pos_of_int (i lsr 1))
let rec int_of_pos (p : positive) : int = match p with XH -> 1 | XO q -> 2 * int_of_pos q | XI q -> 2 * int_of_pos q + 1
let z_of_int (i : int) : z = if i = 0 then Z0 else if i > 0 then Zpos (pos_of_int i) else Zneg (pos_of_int (- i))
let int_of_z (x : z) : int = match x with Z0 -> 0 | Zpos p -> int_of_pos p | Zneg p -> - (int_of_pos p)
let rec int_of_nat (x : nat) : int = match x with O -> 0 | S y -> 1 + int_of_nat y

let rec show (b : Buffer.t) (v : value) : unit =
  match v with
  | VInt z -> Buffer.add_string b (string_of_int (int_of_z z))
  | VList l ->
      Buffer.add_char b '[';
      List.iteri (fun i x -> if i > 0 then Buffer.add_char b ','; show b x) l;
      Buffer.add_char b ']'

(* ---------------------------------------------------------------- tree readers *)
exception Bad of string

let reader (toks : string list) =
  let rest = ref toks in
  let next () = match !rest with [] -> raise (Bad "unexpected end of tree") | t :: r -> rest := r; t in
  let fin () = if !rest <> [] then raise (Bad "trailing tokens") in
  (next, fin)

let num next = z_of_int (int_of_string (next ()))

let read_calc toks =
  let (next, fin) = reader toks in
  let rec e () = match next () with
    | "t" -> CTerm (t ())
    | "+" -> let a = e () in let b = t () in CAdd (a, b)
    | "-" -> let a = e () in let b = t () in CSub (a, b)
    | s -> raise (Bad ("expr tag " ^ s))
  and t () = match next () with
    | "f" -> CFac (f ())
    | "*" -> let a = t () in let b = f () in CMul (a, b)
    | s -> raise (Bad ("term tag " ^ s))
  and f () = match next () with
    | "n" -> CNum (num next)
    | "p" -> CPar (e ())
    | s -> raise (Bad ("factor tag " ^ s)) in
  let r = e () in fin (); r

let read_list toks =
  let (next, fin) = reader toks in
  let rec i () = match next () with
    | "n" -> LNum (num next)
    | "l" -> let a = s () in let b = i () in LNest (a, b)
    | x -> raise (Bad ("item tag " ^ x))
  and s () = match next () with
    | "o" -> LOne (i ())
    | "c" -> let a = i () in let b = s () in LCons (a, b)
    | x -> raise (Bad ("seq tag " ^ x)) in
  let r = i () in fin (); r

let read_mirror toks =
  let (next, fin) = reader toks in
  let rec t () = match next () with
    | "n" -> MLeaf (num next)
    | "b" -> let a = t () in let b = t () in MNode (a, b)
    | x -> raise (Bad ("tree tag " ^ x)) in
  let r = t () in fin (); r

let read_chain toks =
  let (next, fin) = reader toks in
  let rec k () = match next () with
    | "o" -> KOne (num next)
    | "c" -> let z = num next in let r = k () in KCons (z, r)
    | x -> raise (Bad ("chain tag " ^ x)) in
  let r = k () in fin (); r

(* ---------------------------------------------------------------- running *)
let zero = VInt Z0

let run (ops : aop list) (e0 : venv) (shown : var list) : string =
  let (obs, fin) = exec_obs ops (init_state e0) in
  match fin with
  | None -> "throw:incompatible or invalid attribute stack frame"
  | Some st ->
      let b = Buffer.create 256 in
      Buffer.add_string b "ok res=";
      (match st.results with [] -> Buffer.add_string b "none" | v :: _ -> show b v);
      Buffer.add_string b (Printf.sprintf " rdepth=%d fdepth=%d marks=%d vars=" (List.length st.results) (List.length st.frames) (List.length st.marks));
      List.iteri (fun i x -> if i > 0 then Buffer.add_char b ';'; show b (st.vars x)) shown;
      Buffer.add_string b " obs=";
      List.iteri (fun i ((id, r), f) ->
        if i > 0 then Buffer.add_char b ',';
        Buffer.add_string b (Printf.sprintf "%d:%d:%d" (int_of_nat id) (int_of_nat r) (int_of_nat f))) obs;
      Buffer.contents b

let split (s : string) : string list = List.filter (fun t -> t <> "") (String.split_on_char ' ' s)

let handle (line : string) : string =
  match split line with
  | "calc" :: toks -> run (opsE (read_calc toks)) (fun _ -> zero) [c_n; c_e; c_l; c_r]
  | "list" :: toks ->
      (* the C++ variable xs is an (empty) std::vector<long> *)
      let e0 = upd (fun _ -> zero) l_xs (VList []) in
      run (opsI (read_list toks)) e0 [l_x; l_xs; l_k]
  | "mirror" :: toks ->
      (* the C++ variables a, b are default-constructed Nodes: leaf 0 *)
      run (opsM (read_mirror toks)) (fun _ -> VList [zero]) [m_a; m_b]
  | "chain" :: toks -> run (opsK (read_chain toks)) (fun _ -> zero) [k_c; k_acc]
  | "eval" :: "calc" :: toks -> string_of_int (int_of_z (evE (read_calc toks)))
  | "eval" :: "list" :: toks -> string_of_int (int_of_z (evI (read_list toks)))
  | "eval" :: "mirror" :: toks -> let b = Buffer.create 64 in show b (evM (read_mirror toks)); Buffer.contents b
  | "eval" :: "chain" :: toks -> string_of_int (int_of_z (evK (read_chain toks)))
  | _ -> "bad-shape"

let () =
  try
    while true do
      let line = input_line stdin in
      print_endline (try handle line with Bad m -> "bad-tree:" ^ m | Failure m -> "bad-tree:" ^ m)
    done
  with End_of_file -> ()
